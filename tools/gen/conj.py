"""Generator "Conj": `is_stabilizer()` flags and Pauli conjugation tables of every gate in
/repo/src/gates/*.rs  ->  lean/Q1t/Gen/Conj.lean.

Output encoding of Pauli operators = the MODEL's (Tableau.P.toBits): I=0 Z=1 X=2 Y=3.  A table row is
(ops, ops', flip): `conjugate` replaces `ops` by `ops'` and returns `Ok(flip)`.  The source's own
`PauliOp::to_bits`/`from_bits` (src/stabilizer/pauliop.rs) is read, not assumed: it is only needed to
interpret tables that are indexed by `to_bits()`.

What is extracted is the CONTENT (for every input operator / pair: output and sign; whether the arity
is checked), by a tolerant reading of `fn conjugate` (whitespace, comments, names of local bindings,
order of the arms, or-patterns are irrelevant):

  match   [check;] let (a, b) = match ops[0] { PauliOp::A => (PauliOp::B, bool), .. }; ops[0] = a; Ok(b)
          [check;] let (s, a, b) = match (ops[0], ops[1]) { (A, B) => (bool, C, D), .. }; ops[0] = a; ops[1] = b; Ok(s)
          (tuple components in any order, found by which one is returned / stored)
  table   the same with `TABLE[ops[0].to_bits() as usize]` and a local or module `const TABLE: [(PauliOp, bool); 4]`
  helper  the same with the match / table inside a private `fn helper(op0, op1)` called as `Self::helper(ops[0], ops[1])`
          (one level of inlining)
  const   Ok(false)                                   (no arity check, ops untouched)
  swap    [check;] ops.swap(0, 1); Ok(false)
  sign    [check;] Ok(ops[0] == PauliOp::A || ops[0] == PauliOp::B)      (ops untouched)

If the static reading of a primitive fails, its table is extracted DYNAMICALLY: harness/src/bin/conjdump.rs calls the real
`conjugate()` on all 4 / 16 Pauli inputs (the whole domain of the table, so nothing is sampled) and on wrong operand
counts.  Only if that fails too a ValueError is raised (the check then reports the broken tie).

Combinators (`C<G>`, `Kron`, `Composite`, `Loop`): `conjCombinators` records WHAT their `is_stabilizer` computes as a
canonical token ("all-subgates-claim", "g0-and-g1-claim", "body-claims", "default-false"), recognised from the equivalent
source forms (`all(..)`, `!any(!..)`, early-return loop; `a && b`, `if !a { return false; } b`); an unrecognised body raises.
Gates declared through `declare_controlled!` get their `impl Gate` from `declare_controlled_impl_gate!`, which is checked to
define neither `is_stabilizer` nor `conjugate`.  The generated file does not mention the syntactic shape, so a refactoring that
preserves the content leaves it byte-identical.
"""
import os, re
import translate as T

OPS = {"I": 0, "Z": 1, "X": 2, "Y": 3}
COMBINATORS = {"C", "Kron", "Composite", "Loop"}


def _block(src, start):
    """src[start] must be '{'; returns index just after the matching '}'."""
    assert src[start] == "{"
    depth = 0
    for k in range(start, len(src)):
        if src[k] == "{":
            depth += 1
        elif src[k] == "}":
            depth -= 1
            if depth == 0:
                return k + 1
    raise ValueError("unbalanced braces")


def _strip_tests(src):
    m = re.search(r"#\[cfg\(test\)\]\s*mod\s+tests", src)
    return src[:m.start()] if m else src


def _fn_body(impl, name):
    """Body (without outer braces) of `fn name` inside an impl block, or None."""
    m = re.search(r"\bfn\s+%s\s*\(" % name, impl)
    if not m:
        return None
    b = impl.index("{", m.end())
    return impl[b + 1:_block(impl, b) - 1]


def _nows(s):
    return re.sub(r"\s+", "", s)


def _bool(s):
    if s not in ("true", "false"):
        raise ValueError("expected bool literal, got %r" % s)
    return s == "true"


P = r"PauliOp::([IZXY])"
CHECK = r"self\.check_nr_bits\(ops\.len\(\)\)\?;"
NAMES = "IZXY"


def source_encoding(repo):
    """`PauliOp::to_bits` of the source as {name: bits}; cross-checked with `from_bits`."""
    src = T.strip_rust_comments(T.read(repo, "src/stabilizer/pauliop.rs"))
    m = re.search(r"\bfn\s+to_bits\s*\(", src)
    if not m:
        raise ValueError("pauliop.rs: fn to_bits not found")
    b = src.index("{", m.end())
    body = _nows(src[b:_block(src, b)])
    enc = {n: int(v) for n, v in re.findall(r"PauliOp::([IZXY])=>(\d+)", body)}
    if sorted(enc) != sorted(NAMES) or sorted(enc.values()) != [0, 1, 2, 3]:
        raise ValueError("pauliop.rs: to_bits is not a bijection {I,Z,X,Y} -> 0..3: %r" % enc)
    m = re.search(r"\bfn\s+from_bits\s*\(", src)
    if m:
        b = src.index("{", m.end())
        fb = _nows(src[b:_block(src, b)])
        dec = {int(v): n for v, n in re.findall(r"(\d+)=>PauliOp::([IZXY])", fb)}
        if dec and any(dec.get(v) != n for n, v in enc.items()):
            raise ValueError("pauliop.rs: from_bits is not the inverse of to_bits: %r vs %r" % (enc, dec))
    return enc


def _const_tables(text):
    """`const NAME: [(PauliOp, bool); 4] = [..];` declarations in whitespace-free text -> ({name: entries}, text without them)."""
    tables = {}

    def take(m):
        ents = re.findall(r"\(%s,(true|false)\)" % P, m.group(3))
        if len(ents) != int(m.group(2)):
            raise ValueError("const %s: %s entries announced, %d read" % (m.group(1), m.group(2), len(ents)))
        tables[m.group(1)] = [(n, _bool(f)) for n, f in ents]
        return ""
    rest = re.sub(r"(?:const|static)(\w+):\[\(PauliOp,bool\);(\d+)\]=\[([^\]]*)\];", take, text)
    return tables, rest


def _inline_helper(b, impl_src):
    """One level of inlining: `Self::f(ops[0], ..)` / `self.f(..)` / `f(..)` whose body is a single expression."""
    m = re.search(r"=(?:Self::|self\.)?(\w+)\((ops\[0\](?:,ops\[1\])?)\);", b)
    if not m or m.group(1) in ("match",):
        return b
    fname, args = m.group(1), m.group(2).split(",")
    fm = re.search(r"\bfn\s+%s\s*\(([^)]*)\)[^{]*" % fname, impl_src)
    if not fm:
        return b
    params = [q.split(":")[0].strip() for q in fm.group(1).split(",") if q.strip() and q.strip() not in ("&self", "self")]
    if len(params) != len(args):
        return b
    st = impl_src.index("{", fm.end() - 1)
    body = _nows(impl_src[st + 1:_block(impl_src, st) - 1])
    for q, a in zip(params, args):
        body = re.sub(r"(?<![\w.])%s(?![\w(])" % re.escape(q), a, body)
    return b[:m.start()] + "=" + body + ";" + b[m.end():]


def _arms(text, nkeys):
    """match arms `pat | pat => (..)` -> list of (list of key tuples, list of value tokens)."""
    out = []
    for am in re.finditer(r"((?:\(?%s(?:,%s)?\)?\|?)+)=>\(([^()]*)\)" % (P, P), text):
        keys = []
        for alt in am.group(1).split("|"):
            ks = re.findall(P, alt)
            if len(ks) != nkeys:
                raise ValueError("match arm with %d operators where %d expected: %r" % (len(ks), nkeys, alt))
            keys.append(tuple(ks))
        out.append((keys, am.group(am.lastindex).split(",")))
    return out


def parse_conjugate(name, body, file_src, enc):
    """-> (shape, arity, checks_arity, rows); rows in the model encoding OPS."""
    b = _nows(body)
    tables, b = _const_tables(b)
    mtables, _ = _const_tables(_nows(file_src))
    for k, v in mtables.items():
        tables.setdefault(k, v)
    b = _inline_helper(b, file_src)
    t2, b = _const_tables(b)
    tables.update(t2)
    checks = re.search(CHECK, b) is not None
    core = re.sub(CHECK, "", b)
    if core == "Ok(false)":
        # ops untouched whatever their number
        return "const", 1, checks, [([a], [a], False) for a in range(4)]
    if re.fullmatch(r"ops\.swap\((0,1|1,0)\);Ok\(false\)", core):
        return "swap", 2, checks, [([a, c], [c, a], False) for a in range(4) for c in range(4)]
    m = re.fullmatch(r"Ok\((.*)\)", core)
    if m and re.fullmatch(r"(?:ops\[0\]==%s(?:\|\|)?)+" % P, m.group(1)):
        fl = {OPS[x] for x in re.findall(P, m.group(1))}
        return "sign", 1, checks, [([a], [a], a in fl) for a in range(4)]
    # one qubit: let (x, y) = <match | TABLE[..]>; ops[0] = x; Ok(y)
    m = re.fullmatch(r"let\((\w+),(\w+)\)=(.*);ops\[0\]=(\w+);Ok\((\w+)\)", core)
    if m and {m.group(4), m.group(5)} == {m.group(1), m.group(2)}:
        iop = 0 if m.group(4) == m.group(1) else 1
        rhs = m.group(3)
        rows = {}
        tm = re.fullmatch(r"(\w+)\[ops\[0\]\.to_bits\(\)asusize\]", rhs)
        if tm:
            if tm.group(1) not in tables or len(tables[tm.group(1)]) != 4:
                raise ValueError("%s::conjugate: table %s not found" % (name, tm.group(1)))
            dec = {v: n for n, v in enc.items()}
            for idx, ent in enumerate(tables[tm.group(1)]):
                rows[dec[idx]] = ent
            shape = "table"
        else:
            mm = re.fullmatch(r"matchops\[0\]\{(.*)\}", rhs)
            if not mm:
                raise ValueError("%s::conjugate: unrecognised right-hand side %s" % (name, rhs[:120]))
            for keys, vals in _arms(mm.group(1), 1):
                if len(vals) != 2:
                    raise ValueError("%s::conjugate: arm value %r" % (name, vals))
                o = re.fullmatch(P, vals[iop])
                if not o:
                    raise ValueError("%s::conjugate: arm value %r" % (name, vals))
                for (k,) in keys:
                    if k in rows:
                        raise ValueError("%s::conjugate: duplicate arm for %s" % (name, k))
                    rows[k] = (o.group(1), _bool(vals[1 - iop]))
            shape = "match"
        if sorted(rows) != sorted(NAMES):
            raise ValueError("%s::conjugate: table does not cover the 4 operators" % name)
        return shape, 1, checks, [([OPS[k]], [OPS[rows[k][0]]], rows[k][1]) for k in "IZXY"]
    # two qubits: let (x, y, z) = match (ops[0], ops[1]) {..}; ops[0] = ..; ops[1] = ..; Ok(..)
    m = re.fullmatch(r"let\((\w+),(\w+),(\w+)\)=match\(ops\[0\],ops\[1\]\)\{(.*)\};ops\[0\]=(\w+);ops\[1\]=(\w+);Ok\((\w+)\)", core)
    if m:
        binds = [m.group(1), m.group(2), m.group(3)]
        use = [m.group(5), m.group(6), m.group(7)]
        if sorted(binds) != sorted(use):
            raise ValueError("%s::conjugate: bindings %r used as %r" % (name, binds, use))
        i0, i1, isg = binds.index(use[0]), binds.index(use[1]), binds.index(use[2])
        rows = {}
        for keys, vals in _arms(m.group(4), 2):
            if len(vals) != 3:
                raise ValueError("%s::conjugate: arm value %r" % (name, vals))
            o0, o1 = re.fullmatch(P, vals[i0]), re.fullmatch(P, vals[i1])
            if not o0 or not o1:
                raise ValueError("%s::conjugate: arm value %r" % (name, vals))
            for k in keys:
                if k in rows:
                    raise ValueError("%s::conjugate: duplicate arm for %s" % (name, k))
                rows[k] = ([OPS[k[0]], OPS[k[1]]], [OPS[o0.group(1)], OPS[o1.group(1)]], _bool(vals[isg]))
        keys = [(a, c) for a in "IZXY" for c in "IZXY"]
        if sorted(rows) != sorted(keys):
            raise ValueError("%s::conjugate: match does not cover the 16 operator pairs" % name)
        return "match", 2, checks, [rows[k] for k in keys]
    raise ValueError("%s::conjugate: unrecognised shape: %s" % (name, b[:200]))


def parse_flag(name, stab):
    t = _nows(stab)
    if t in ("true", "false"):
        return t == "true"
    raise ValueError("%s::is_stabilizer: expected a bool literal, got %s" % (name, t[:80]))


def combinator_token(name, stab):
    """what `is_stabilizer` of a combinator computes, as a canonical token"""
    if stab is None:
        return "default-false"
    t = _nows(stab)
    call = r"(\w+)\.gate\.is_stabilizer\(\)"
    forms_all = [r"self\.ops\.iter\(\)\.all\(\|(\w+)\|\1\.gate\.is_stabilizer\(\)\)",
                 r"!self\.ops\.iter\(\)\.any\(\|(\w+)\|!\1\.gate\.is_stabilizer\(\)\)",
                 r"for(\w+)inself\.ops\.iter\(\)\{if!\1\.gate\.is_stabilizer\(\)\{returnfalse;\}\}(?:return)?true;?",
                 r"for(\w+)in&self\.ops\{if!\1\.gate\.is_stabilizer\(\)\{returnfalse;\}\}(?:return)?true;?"]
    if any(re.fullmatch(f, t) for f in forms_all):
        return "all-subgates-claim"
    forms_and = [r"self\.g0\.is_stabilizer\(\)&&self\.g1\.is_stabilizer\(\)",
                 r"if!self\.g0\.is_stabilizer\(\)\{returnfalse;\}self\.g1\.is_stabilizer\(\)",
                 r"ifself\.g0\.is_stabilizer\(\)\{self\.g1\.is_stabilizer\(\)\}else\{false\}"]
    if any(re.fullmatch(f, t) for f in forms_and):
        return "g0-and-g1-claim"
    if t == "self.body.is_stabilizer()":
        return "body-claims"
    raise ValueError("%s::is_stabilizer: unrecognised shape: %s" % (name, t[:200]))


def dynamic_tables(repo, names):
    """conjugate() of the named gates on the whole domain, through harness/src/bin/conjdump.rs.
    -> {name: (arity, flag, checks_arity, rows)} in the model encoding."""
    import subprocess
    if os.path.realpath(repo) != "/repo":
        raise ValueError("dynamic extraction needs the harness, which is built against /repo (got %s)" % repo)
    root = os.path.dirname(os.path.dirname(os.path.dirname(os.path.abspath(__file__))))
    env = dict(os.environ, CARGO_NET_OFFLINE="true", CARGO_TARGET_DIR=os.path.join(root, ".cache", "cargo-target"))
    r = subprocess.run(["cargo", "build", "--bin", "conjdump"], cwd=os.path.join(root, "harness"), env=env,
                       capture_output=True, text=True, timeout=1800)
    if r.returncode != 0:
        raise ValueError("dynamic extraction: harness does not build: %s" % r.stderr[-300:])
    r = subprocess.run([os.path.join(env["CARGO_TARGET_DIR"], "debug", "conjdump")] + list(names),
                       capture_output=True, text=True, timeout=600)
    if r.returncode != 0:
        raise ValueError("dynamic extraction: conjdump failed: %s" % (r.stderr[-300:] or r.stdout[-300:]))
    out = {}
    for line in r.stdout.split("\n"):
        w = line.split()
        if not w:
            continue
        if w[0] == "gate":            # gate NAME arity flag checks
            out[w[1]] = [int(w[2]), w[3] == "true", w[4] == "true", []]
        elif w[0] == "row":           # row NAME IN OUT flip     (operator names, e.g. XZ YY 1)
            out[w[1]][3].append(([OPS[c] for c in w[2]], [OPS[c] for c in w[3]], w[4] == "1"))
        elif w[0] == "bad":
            raise ValueError("dynamic extraction: %s" % line)
    for n in names:
        if n not in out:
            raise ValueError("dynamic extraction: no answer for %s" % n)
        ar, flag, checks, rows = out[n]
        if flag and len(rows) != 4 ** ar:
            raise ValueError("dynamic extraction: %s claims but answered %d of %d strings" % (n, len(rows), 4 ** ar))
        rows.sort(key=lambda r: r[0])
    return {n: tuple(v) for n, v in out.items()}


def scan_file(repo, rel):
    """-> list of dicts for every `impl .. Gate for NAME` in the file (tests stripped)."""
    src = _strip_tests(T.strip_rust_comments(T.read(repo, rel)))
    out = []
    for m in re.finditer(r"\bimpl\s*(?:<[^>]*>\s*)?(?:crate::gates::|\$crate::gates::)?Gate\s+for\s+([A-Za-z0-9_$]+)", src):
        name = m.group(1)
        b = src.index("{", m.end())
        impl = src[b:_block(src, b)]
        out.append({"name": name, "file": rel, "impl": impl, "src": src})
    return out


def gate_info(g):
    impl, name = g["impl"], g["name"]
    stab = _fn_body(impl, "is_stabilizer")
    conj = _fn_body(impl, "conjugate")
    nab = _fn_body(impl, "nr_affected_bits")
    arity = None
    if nab is not None:
        t = _nows(nab)
        if re.fullmatch(r"\d+", t):
            arity = int(t)
    return stab, conj, arity


@T.generator("Conj")
def gen(repo):
    gdir = os.path.join(repo, "src", "gates")
    files = sorted(f for f in os.listdir(gdir) if f.endswith(".rs"))
    if not files:
        raise ValueError("no gate files in src/gates")
    enc = source_encoding(repo)
    entries = []      # (name, arity, flag, rows, shape, file)
    dyn = []          # primitives whose table could not be read statically
    nocheck = []
    combos = []
    arities = {}
    for f in files:
        rel = "src/gates/" + f
        if f == "parameter.rs":
            continue
        for g in scan_file(repo, rel):
            name = g["name"]
            stab, conj, arity = gate_info(g)
            if name.startswith("$"):
                # macro template (declare_controlled_impl_gate): must not define the two methods
                if stab is not None or conj is not None:
                    raise ValueError("%s: macro-generated impl Gate now defines is_stabilizer/conjugate" % rel)
                continue
            if name in COMBINATORS:
                combos.append((name, combinator_token(name, stab),
                               "conjugate" if conj is not None else "default-error"))
                continue
            if stab is None:
                flag = False
            else:
                flag = parse_flag(name, stab)
            if conj is None:
                shape, rows, checks = "none", [], True
                carity = arity
            else:
                try:
                    shape, carity, checks, rows = parse_conjugate(name, conj, g["src"], enc)
                except ValueError as e:
                    dyn.append((name, str(e), len(entries), rel))
                    entries.append(None)
                    continue
                if arity is not None and arity != carity:
                    raise ValueError("%s: nr_affected_bits %s but conjugate table of arity %s" % (name, arity, carity))
            if conj is not None and not flag:
                raise ValueError("%s defines conjugate but is_stabilizer is false" % name)
            if flag and conj is None:
                raise ValueError("%s is_stabilizer but has no conjugate" % name)
            if carity is None:
                # CX/CY/CZ delegate to self.cgate (C<X>): 1 control + 1; only reached when no table gives the arity
                raise ValueError("%s: cannot determine arity" % name)
            arities[name] = carity
            entries.append((name, carity, flag, rows, shape, rel))
            if not checks:
                nocheck.append(name)
    if dyn:
        got = dynamic_tables(repo, [d[0] for d in dyn])
        for name, why, pos, rel in dyn:
            ar, flag, checks, rows = got[name]
            if not flag:
                raise ValueError("%s defines conjugate but is_stabilizer() is false (%s)" % (name, why))
            arities[name] = ar
            entries[pos] = (name, ar, flag, rows, "dynamic", rel)
            if not checks:
                nocheck.append(name)
        nocheck = [e[0] for e in entries if e[0] in nocheck]
    # gates declared with declare_controlled!(Name, base_type, ...)
    csrc = _strip_tests(T.strip_rust_comments(T.read(repo, "src/gates/controlled.rs")))
    decls = re.findall(r"declare_controlled!\(\s*(?:#\[[^\]]*\]\s*)*([A-Za-z0-9_]+)\s*,\s*(?:crate::gates::)?([A-Za-z0-9_]+)", csrc)
    # doc comments were stripped; attributes `#[doc..]` do not occur. Skip the macro's own definition arm.
    decls = [(n, b) for n, b in decls if not n.startswith("$")]
    if not decls:
        raise ValueError("no declare_controlled! invocations found in src/gates/controlled.rs")
    pending = list(decls)
    for _ in range(len(decls) + 1):
        rest = []
        for n, b in pending:
            if b in arities:
                arities[n] = arities[b] + 1
                entries.append((n, arities[n], False, [], "none", "src/gates/controlled.rs"))
            else:
                rest.append((n, b))
        pending = rest
    if pending:
        raise ValueError("declare_controlled!: unknown base gate types %r" % pending)
    names = [e[0] for e in entries]
    if len(set(names)) != len(names):
        raise ValueError("duplicate gate names %r" % names)
    for need in ("H", "X", "Y", "Z", "S", "Sdg", "V", "Vdg", "I", "CX", "CY", "CZ", "Swap", "T", "Tdg",
                 "RX", "RY", "RZ", "U1", "U2", "U3"):
        if need not in names:
            raise ValueError("gate %s not found in src/gates" % need)

    def lst(xs):
        return "[" + ", ".join(str(x) for x in xs) + "]"

    def row(r):
        return "(%s, %s, %s)" % (lst(r[0]), lst(r[1]), "true" if r[2] else "false")

    body = []
    body.append("/-- (gate struct name, number of qubits, `is_stabilizer()`, rows of the `conjugate` table:\n"
                "(ops, ops', flip_sign) with I=0 Z=1 X=2 Y=3; empty = default `NotAStabilizer` error). -/\n"
                "def conjTable : List (String × Nat × Bool × List (List Nat × List Nat × Bool)) := [\n")
    items = []
    for name, ar, flag, rows, shape, rel in entries:
        items.append("  -- %s (%s)\n  (\"%s\", %d, %s, [%s])" % (
            name, rel, name, ar, "true" if flag else "false",
            ",\n    ".join(row(r) for r in rows)))
    body.append(",\n".join(items) + "\n]\n\n")
    body.append("/-- gates whose `conjugate` does not call `check_nr_bits` -/\n"
                "def conjNoArityCheck : List String := [%s]\n\n" % ", ".join('"%s"' % n for n in nocheck))
    body.append("/-- combinator gates: (name, what `is_stabilizer` computes, whether `conjugate` is overridden) -/\n"
                "def conjCombinators : List (String × String × String) := [%s]\n" % ", ".join(
                    '("%s", "%s", "%s")' % c for c in combos))
    return T.header("Conj", "src/gates/*.rs (is_stabilizer, conjugate)") + "".join(body) + T.FOOTER

"""C15: everything `Composite::from_string` (src/gates/composite.rs) looks up in a table.

* the dispatch `match gate.name.to_lowercase().as_str()`: for every arm the lower-case name, the gate struct
  constructed, the two numbers given to `assert_nr_args_bits` and which `gate.args[i]` are passed in which order;
* the `Regex::new(r"…")` pattern strings of the four `parse_gate_*` helpers (the model in
  lean/Q1t/Model/FromString.lean re-implements exactly these by hand);
* the two Unicode tables of the regex engine the patterns depend on beyond what C14 already models: `\\d`
  (regex-syntax `perl_decimal::DECIMAL_NUMBER`) and the non-ASCII characters that `(?i)[a-z]` matches through
  simple case folding (regex-syntax `case_folding_simple`), read from the vendored crate source of the version
  pinned in /repo/Cargo.lock.

`Q1t/Props/C15.lean` proves `Gen.fromStringTable = Spec.documentedTable`, `Gen.fromStringPatterns =
FromString.modelledPatterns` and the facts about the Unicode tables the theorems use, so a changed arm, pattern
or table fails one named obligation."""
import glob, os, re
import translate as T


def _lean_str(s):
    return '"' + s.replace("\\", "\\\\").replace('"', '\\"') + '"'


def _fn_bodies(src):
    fns = list(re.finditer(r"\bfn\s+(\w+)\s*[<(]", src))
    return [(m.group(1), src[m.end():(fns[i + 1].start() if i + 1 < len(fns) else len(src))]) for i, m in enumerate(fns)]


def _regex_syntax_dir(repo):
    lock = T.read(repo, "Cargo.lock")
    m = re.search(r'name = "regex-syntax"\s*\nversion = "([^"]+)"', lock)
    if not m:
        raise ValueError("Cargo.lock: regex-syntax not pinned")
    ver = m.group(1)
    homes = [os.environ.get("CARGO_HOME"), os.path.expanduser("~/.cargo"), "/root/.cargo", "/usr/local/cargo"]
    for h in homes:
        if not h:
            continue
        for d in sorted(glob.glob(os.path.join(h, "registry", "src", "*", "regex-syntax-" + ver))):
            if os.path.isdir(d):
                return d, ver
    raise ValueError("vendored source of regex-syntax %s not found under CARGO_HOME/registry/src" % ver)


def _char(tok):
    """A Rust char literal body (between the quotes) as a code point."""
    if tok.startswith("\\u{"):
        return int(tok[3:-1], 16)
    esc = {"\\n": 10, "\\t": 9, "\\r": 13, "\\\\": 92, "\\'": 39, "\\0": 0}
    if tok in esc:
        return esc[tok]
    if len(tok) != 1:
        raise ValueError("unrecognised char literal %r" % tok)
    return ord(tok)


@T.generator("FromString")
def gen(repo):
    full = T.read(repo, "src/gates/composite.rs").split("#[cfg(test)]")[0]
    src = T.strip_rust_comments(full)
    bodies = dict(_fn_bodies(src))
    # ---- patterns (from the un-stripped text: a pattern could contain `//`)
    rows = []
    for name, body in _fn_bodies(full):
        if not name.startswith("parse_gate_"):
            continue
        pats = re.findall(r'Regex::new\(\s*r"([^"]*)"\s*\)', body)
        if len(pats) != body.count("Regex::new"):
            raise ValueError("composite.rs: a Regex::new call in %s is not a raw string literal" % name)
        rows.append((name, pats))
    if [n for n, _ in rows] != ["parse_gate_name", "parse_gate_args", "parse_gate_bits", "parse_gate_desc"]:
        raise ValueError("composite.rs: expected parse_gate_name/args/bits/desc, found %r" % [n for n, _ in rows])
    # ---- dispatch
    fs = bodies.get("from_string")
    if fs is None:
        raise ValueError("composite.rs: fn from_string not found")
    m = re.search(r"match\s+gate\.name\.to_lowercase\(\)\.as_str\(\)\s*\{", fs)
    if not m:
        raise ValueError("from_string: `match gate.name.to_lowercase().as_str()` not found")
    # the match body: up to the matching brace
    depth, i = 1, m.end()
    while depth and i < len(fs):
        depth += {"{": 1, "}": -1}.get(fs[i], 0)
        i += 1
    mbody = fs[m.end():i - 1]
    arm = re.compile(
        r'"([^"]*)"\s*=>\s*\{\s*Self::assert_nr_args_bits\(\s*(\d+)\s*,\s*(\d+)\s*,\s*&gate\s*\)\?\s*;\s*'
        r'composite\.add_gate\(\s*(\w+)::new\(([^()]*)\)\s*,\s*&gate\.bits\s*\)\s*;\s*\}\s*,?')
    arms, pos = [], 0
    rest = mbody
    while True:
        rest = rest.lstrip()
        am = arm.match(rest)
        if not am:
            break
        key, na, nb, ctor, args = am.groups()
        order = []
        for a in [x.strip() for x in args.split(",") if x.strip()]:
            g = re.fullmatch(r"gate\.args\[(\d+)\]", a)
            if not g:
                raise ValueError("from_string arm %r: constructor argument %r is not gate.args[i]" % (key, a))
            order.append(int(g.group(1)))
        arms.append((key, ctor, int(na), int(nb), order))
        rest = rest[am.end():]
    if not re.fullmatch(r"_\s*=>\s*\{\s*return\s+Err\(\s*crate::error::ParseError::UnknownGate\(\s*gate\.name\s*\)\s*\)\s*;\s*\}\s*,?\s*",
                        rest.strip()):
        raise ValueError("from_string: unrecognised arm or default arm: %r" % rest.strip()[:120])
    if not arms:
        raise ValueError("from_string: no dispatch arms found")
    # The patterns of the arms are string literals: an arm is taken iff its literal equals the scrutinee, and of two arms with
    # the same literal only the first can ever be taken.  So the match is a lookup table keyed by the literal, and the order
    # of arms with DIFFERENT literals is semantically irrelevant: drop unreachable duplicates (keeping the first) and emit the
    # table sorted by key, so that re-ordering the arms in the source does not change the generated table.
    # (`Props/C15.dispatch_keys_distinct` re-checks the distinctness of the keys of the emitted table.)
    seen, uniq = set(), []
    for a in arms:
        if a[0] not in seen:
            seen.add(a[0])
            uniq.append(a)
    arms = sorted(uniq, key=lambda a: a[0])
    # ---- Unicode tables of the regex engine
    rsdir, ver = _regex_syntax_dir(repo)
    dec = open(os.path.join(rsdir, "src", "unicode_tables", "perl_decimal.rs"), encoding="utf-8").read()
    dm = re.search(r"pub const DECIMAL_NUMBER[^=]*=\s*&\[(.*?)\];", dec, flags=re.S)
    if not dm:
        raise ValueError("regex-syntax %s: DECIMAL_NUMBER not found" % ver)
    ranges = [(_char(a), _char(b)) for a, b in re.findall(r"\('((?:\\.|\\u\{[0-9a-fA-F]+\}|[^'\\])[^']*?)',\s*'((?:\\.|\\u\{[0-9a-fA-F]+\}|[^'\\])[^']*?)'\)", dm.group(1))]
    if not ranges or ranges[0] != (48, 57):
        raise ValueError("regex-syntax %s: DECIMAL_NUMBER does not start with ('0','9')" % ver)
    cf = open(os.path.join(rsdir, "src", "unicode_tables", "case_folding_simple.rs"), encoding="utf-8").read()
    cm = re.search(r"pub const CASE_FOLDING_SIMPLE[^=]*=\s*&\[(.*)\];", cf, flags=re.S)
    if not cm:
        raise ValueError("regex-syntax %s: CASE_FOLDING_SIMPLE not found" % ver)
    extras = set()
    for c, lst in re.findall(r"\('((?:\\u\{[0-9a-fA-F]+\}|\\.|[^'\\]))',\s*&\[([^\]]*)\]\)", cm.group(1)):
        cp = _char(c)
        if 97 <= cp <= 122 or 65 <= cp <= 90:
            for t in re.findall(r"'((?:\\u\{[0-9a-fA-F]+\}|\\.|[^'\\]))'", lst):
                tp = _char(t)
                if tp > 127:
                    extras.add(tp)
    out = T.header("FromString", "src/gates/composite.rs (from_string dispatch arms; parse_gate_* patterns) and "
                   "regex-syntax %s unicode tables (tools/gen/c15_fromstring.py)" % ver)
    out += ("/-- The arms of `match gate.name.to_lowercase().as_str()`, sorted by their string literal (the literals are distinct,\n"
            "so the order of the arms in the source is irrelevant; an unreachable later arm with a repeated literal would be dropped):\n"
            "(key, gate struct constructed, `nr_args`, `nr_bits` of `assert_nr_args_bits`, indices `i` of the `gate.args[i]`\n"
            "passed to `::new` in order).  The default arm is `UnknownGate(gate.name)`. -/\n"
            "def fromStringTable : List (String × String × Nat × Nat × List Nat) := [\n")
    out += ",\n".join("  (%s, %s, %d, %d, [%s])" % (_lean_str(k), _lean_str(c), na, nb, ", ".join(map(str, o)))
                      for k, c, na, nb, o in arms)
    out += "]\n\n/-- `Regex::new(r\"…\")` patterns of the four `parse_gate_*` helpers, in source order. -/\n"
    out += "def fromStringPatterns : List (String × List String) := [\n"
    out += ",\n".join("  (%s, [%s])" % (_lean_str(n), ", ".join(_lean_str(p) for p in ps)) for n, ps in rows)
    out += "]\n\n/-- `\\d` of the regex engine (Unicode mode): inclusive code point ranges of `Decimal_Number`. -/\n"
    out += "def decimalRanges : List (Nat × Nat) := [\n  "
    out += ", ".join("(%d, %d)" % r for r in ranges)
    out += "]\n\n/-- Non-ASCII code points in the simple case folding orbit of an ASCII letter: what `(?i)[a-z]` matches\nbesides `a-z`, `A-Z`. -/\n"
    out += "def letterFoldExtras : List Nat := [%s]\n" % ", ".join(str(x) for x in sorted(extras))
    return out + T.FOOTER

"""C10: every place in the library (tests and the verif hooks excluded) that touches AMBIENT state: a process/thread random
generator, a randomly keyed std hash container, the clock, the environment, thread-local or static mutable state.
The model's structural determinism (randomness reaches a result only through the generator handed in) is tied to the
code by the theorem `Props.C10.ambient_sites_as_expected`: the regenerated list equals the hand-written expected one
(`thread_rng` only in the two unseeded convenience wrappers; one std HashMap, the result container of
histogram_string).  A new site anywhere in src/ fails that one named obligation."""
import os, re
import translate as T

TOKENS = [
    ("thread_rng", r"\bthread_rng\b"), ("rand::random", r"\brand::random\b"), ("OsRng", r"\bOsRng\b"),
    ("from_entropy", r"\bfrom_entropy\b"), ("getrandom", r"\bgetrandom\b"),
    ("std-HashMap-new", r"\bHashMap\s*::\s*(?:<[^>]*>\s*::\s*)?(?:new|default|with_capacity|from_iter|from)\s*\("),
    ("std-HashSet-new", r"\bHashSet\s*::\s*(?:<[^>]*>\s*::\s*)?(?:new|default|with_capacity|from_iter|from)\s*\("),
    ("RandomState", r"\bRandomState\b"), ("SystemTime", r"\bSystemTime\b"), ("Instant", r"\bInstant\s*::\s*now\b"),
    ("env-var", r"\benv\s*::\s*var"), ("thread_local", r"\bthread_local\s*!"), ("static-mut", r"\bstatic\s+mut\b"),
    ("lazy_static", r"\blazy_static\s*!"), ("interior-static", r"\bstatic\s+\w+\s*:\s*[^=;]*(?:Atomic|Mutex|RwLock|Cell|OnceCell|Once)\b"),
    ("thread-id", r"\bthread\s*::\s*current\b"), ("process-id", r"\bprocess\s*::\s*id\b"),
    ("collect-into-std-hash", r"collect\s*::\s*<\s*(?:::)?(?:std\s*::\s*collections\s*::\s*)?Hash(?:Map|Set)\b"),
]


def _lean_str(s):
    return '"' + s.replace("\\", "\\\\").replace('"', '\\"') + '"'


def _strip_tests(src):
    # `#[cfg(test)] mod tests { ... }` is the tail of every file of this crate; cfg(feature = "verif") items are hooks
    i = src.find("#[cfg(test)]")
    return src if i < 0 else src[:i]


@T.generator("AmbientSites")
def gen(repo):
    rows = []
    files = []
    for d, _, fs in os.walk(os.path.join(repo, "src")):
        for f in fs:
            if f.endswith(".rs"):
                files.append(os.path.relpath(os.path.join(d, f), repo))
    if not files:
        raise ValueError("no Rust sources under src/")
    for rel in sorted(files):
        if rel == "src/verif.rs":
            continue
        src = T.strip_rust_comments(_strip_tests(T.read(repo, rel)))
        # drop items behind the verif feature (hooks): `#[cfg(feature = "verif")]` + the item that follows up to its closing brace at depth 0
        src = re.sub(r'#\[cfg\(feature\s*=\s*"verif"\)\]\s*(?:pub\s+)?(?:fn|impl|mod|use|static|thread_local!)[^{;]*(?:;|\{(?:[^{}]|\{(?:[^{}]|\{[^{}]*\})*\})*\})', "", src)
        fns = [(m.start(), m.group(1)) for m in re.finditer(r"\bfn\s+(\w+)", src)]
        for name, pat in TOKENS:
            for m in re.finditer(pat, src):
                encl = "-"
                for pos, fn in fns:
                    if pos < m.start():
                        encl = fn
                    else:
                        break
                rows.append((rel, encl, name))
    rows = sorted(set(rows))
    out = T.header("AmbientSites", "src/**/*.rs (every use of ambient random generators, std hash containers, clock, environment, thread-local/static state; tests and verif hooks excluded)")
    out += "/-- (file, enclosing function, kind of ambient state) -/\n"
    out += "def ambientSites : List (String × String × String) := [\n"
    out += ",\n".join("  (%s, %s, %s)" % (_lean_str(a), _lean_str(b), _lean_str(c)) for a, b, c in rows)
    out += "]\n"
    return out + T.FOOTER

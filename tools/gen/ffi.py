"""Plug-in generators for C19: the C interface of /repo/src/ffi.rs.

  FfiTables  the two name-dispatch `match`es of circuit_add_gate / circuit_add_conditional_gate
             (name -> Rust gate type, arity of that type, number of parameters checked, the count
             printed in the InvalidNrArguments message), the RESULT_* codes, the literal error
             messages of every entry point, the restype dispatch of CResult::free
  FfiSigs    the `extern "C"` signatures and #[repr(C)] layouts of ffi.rs, the cdef prototypes and
             struct layouts of python/q1tsimffi.py, and the RESULT_* codes of the Python side

A generator raises ValueError as soon as the source has a shape it does not recognise.
"""
import os, re
import translate as T


def lean_str(s):
    out = []
    for ch in s:
        if ch == '"':
            out.append('\\"')
        elif ch == '\\':
            out.append('\\\\')
        elif ch == '\n':
            out.append('\\n')
        else:
            out.append(ch)
    return '"' + "".join(out) + '"'


def lean_list(xs, per_line=False):
    if per_line:
        return "[\n  " + ",\n  ".join(xs) + "\n]" if xs else "[]"
    return "[" + ", ".join(xs) + "]"


def balanced(src, start, open_ch="{", close_ch="}"):
    """src[start] == open_ch; returns index just past the matching close (string literals respected)."""
    assert src[start] == open_ch, (src[start:start + 20], open_ch)
    depth, i, n = 0, start, len(src)
    while i < n:
        c = src[i]
        if c == '"':
            i += 1
            while i < n and src[i] != '"':
                i += 2 if src[i] == '\\' else 1
        elif c == "'" and i + 2 < n and (src[i + 2] == "'" or (src[i + 1] == '\\' and src[i + 3] == "'")):
            i += 3 if src[i + 2] == "'" else 4
            continue
        elif c == open_ch:
            depth += 1
        elif c == close_ch:
            depth -= 1
            if depth == 0:
                return i + 1
        i += 1
    raise ValueError("unbalanced %s at %d" % (open_ch, start))


def ffi_source(repo):
    return T.strip_rust_comments(T.read(repo, "src/ffi.rs"))


def extern_fns(src):
    """[(name, args_text, ret_text, body_text)] for every `pub extern "C" fn`."""
    res = []
    for m in re.finditer(r'(#\[no_mangle\]\s*)?pub\s+extern\s+"C"\s+fn\s+(\w+)\s*\(', src):
        if not m.group(1):
            raise ValueError("extern \"C\" fn %s is not #[no_mangle]" % m.group(2))
        pa = src.index("(", m.end() - 1)
        pe = balanced(src, pa, "(", ")")
        rest = src[pe:]
        mb = re.match(r"\s*(->\s*([^{]+?))?\s*\{", rest)
        if not mb:
            raise ValueError("cannot find body of %s" % m.group(2))
        bstart = pe + mb.end() - 1
        bend = balanced(src, bstart)
        res.append((m.group(2), src[pa + 1:pe - 1], (mb.group(2) or "()").strip(), src[bstart:bend]))
    if not res:
        raise ValueError("no extern \"C\" functions found in src/ffi.rs")
    return res


# ---------------------------------------------------------------------------------------------
# arity of a gate type, read from src/gates/*.rs

def gate_arity(repo, ty, _depth=0):
    if _depth > 4:
        raise ValueError("arity of %s: recursion" % ty)
    gdir = os.path.join(repo, "src", "gates")
    for fn in sorted(os.listdir(gdir)):
        if not fn.endswith(".rs"):
            continue
        src = T.strip_rust_comments(T.read(repo, os.path.join("src", "gates", fn)))
        # explicit impl
        m = re.search(r"impl\s+(?:crate::gates::)?Gate\s+for\s+%s\b\s*\{" % re.escape(ty), src)
        if m:
            body = src[m.end() - 1: balanced(src, m.end() - 1)]
            mm = re.search(r"fn\s+nr_affected_bits\s*\(\s*&self\s*\)\s*->\s*usize\s*\{\s*([^}]*?)\s*\}", body)
            if not mm:
                raise ValueError("arity of %s: no nr_affected_bits in impl Gate" % ty)
            e = mm.group(1).strip()
            if re.fullmatch(r"\d+", e):
                return int(e)
            if e == "self.cgate.nr_affected_bits()":
                mi = re.search(r"cgate\s*:\s*(?:crate::gates::)?C::new\(\s*(?:crate::gates::)?(\w+)::new\(", src)
                if not mi:
                    raise ValueError("arity of %s: cannot find the controlled gate type" % ty)
                return 1 + gate_arity(repo, mi.group(1), _depth + 1)
            raise ValueError("arity of %s: unrecognised body %r" % (ty, e))
        # declare_controlled!(Name, GateType, ...): arity = 1 + arity(GateType)
        m = re.search(r"declare_controlled!\(\s*%s\s*,\s*(?:crate::gates::)?(\w+)\s*[,)]" % re.escape(ty), src)
        if m:
            if not re.search(r"fn\s+nr_affected_bits\(&self\)\s*->\s*usize\s*\{\s*self\.cgate\.nr_affected_bits\(\)\s*\}", src) or \
               not re.search(r"1\s*\+\s*self\.gate\.nr_affected_bits\(\)", src):
                raise ValueError("arity of %s: controlled.rs no longer has the 1 + inner shape" % ty)
            return 1 + gate_arity(repo, m.group(1), _depth + 1)
    raise ValueError("arity of %s: type not found in src/gates" % ty)


# ---------------------------------------------------------------------------------------------
# FfiTables

def parse_macro(src):
    """add_parametrized_gate! arms -> {(N, conditional?): (len_checked, msg_expected, ctor_args)}"""
    m = re.search(r"macro_rules!\s*add_parametrized_gate\s*\{", src)
    if not m:
        raise ValueError("macro add_parametrized_gate not found")
    body = src[m.end() - 1: balanced(src, m.end() - 1)]
    arms = {}
    pos = 1
    while True:
        mm = re.compile(r"\s*\(\s*(\d+)\s*,([^)]*)\)\s*=>\s*\{").match(body, pos)
        if not mm:
            break
        bstart = mm.end() - 1
        bend = balanced(body, bstart)
        arm = body[bstart:bend]
        n = int(mm.group(1))
        cond = "$control" in mm.group(2)
        lens = re.findall(r"\$params\.len\(\)\s*!=\s*(\d+)", arm)
        msg = re.findall(r"InvalidNrArguments\(\s*\$params\.len\(\)\s*,\s*(\d+)\s*,", arm)
        mnew = re.search(r"<\$gate_type>::new\(([^)]*)\)", arm)
        if len(lens) != 1 or len(msg) != 1 or not mnew:
            raise ValueError("add_parametrized_gate arm (%d,%s): unrecognised shape" % (n, cond))
        idx = re.findall(r"\$params\[(\d+)\]", mnew.group(1))
        if idx != [str(i) for i in range(len(idx))]:
            raise ValueError("add_parametrized_gate arm (%d,%s): constructor arguments %r" % (n, cond, idx))
        call = "add_conditional_gate" if cond else "add_gate"
        if not re.search(r"\$circuit\.%s\(" % call, arm):
            raise ValueError("add_parametrized_gate arm (%d,%s): does not call %s" % (n, cond, call))
        if int(lens[0]) != len(idx):
            raise ValueError("add_parametrized_gate arm (%d,%s): checks %s parameters but uses %d" % (n, cond, lens[0], len(idx)))
        if (n, cond) in arms:
            raise ValueError("add_parametrized_gate arm (%d,%s) twice" % (n, cond))
        arms[(n, cond)] = (int(lens[0]), int(msg[0]), len(idx))
        pos = bend
        mm2 = re.compile(r"\s*;").match(body, pos)
        if mm2:
            pos = mm2.end()
    if not arms:
        raise ValueError("add_parametrized_gate: no arms recognised")
    return arms


def parse_dispatch(repo, fname, body, macro, cond):
    m = re.search(r"match\s+gate_name\.to_lowercase\(\)\.as_str\(\)\s*\{", body)
    if not m:
        raise ValueError("%s: `match gate_name.to_lowercase().as_str()` not found" % fname)
    blk = body[m.end() - 1: balanced(body, m.end() - 1)]
    rows, pos, default_seen = [], 1, False
    arm_re = re.compile(r'\s*(?:"([^"]*)"|(_))\s*=>\s*\{')
    while True:
        mm = arm_re.match(blk, pos)
        if not mm:
            if blk[pos:].strip() not in ("}", ""):
                raise ValueError("%s: unrecognised text in match: %r" % (fname, blk[pos:pos + 60]))
            break
        bstart = mm.end() - 1
        bend = balanced(blk, bstart)
        arm = blk[bstart + 1:bend - 1].strip()
        if mm.group(2):
            default_seen = True
            if not re.search(r"ParseError::UnknownGate\(\s*String::from\(gate_name\)\s*\)", arm):
                raise ValueError("%s: default arm is not UnknownGate(gate_name)" % fname)
        else:
            name = mm.group(1)
            if default_seen:
                raise ValueError("%s: arm %r after the default arm" % (fname, name))
            if cond:
                d = re.fullmatch(r"circuit\.add_conditional_gate\(\s*control\s*,\s*target\s*,\s*(\w+)::new\(\)\s*,\s*qbits\s*\)", arm)
                p = re.fullmatch(r"add_parametrized_gate!\(\s*(\d+)\s*,\s*circuit\s*,\s*control\s*,\s*target\s*,\s*(\w+)\s*,\s*qbits\s*,\s*params\s*\)", arm)
            else:
                d = re.fullmatch(r"circuit\.add_gate\(\s*(\w+)::new\(\)\s*,\s*qbits\s*\)", arm)
                p = re.fullmatch(r"add_parametrized_gate!\(\s*(\d+)\s*,\s*circuit\s*,\s*(\w+)\s*,\s*qbits\s*,\s*params\s*\)", arm)
            if d:
                ty, npar, msg, chk = d.group(1), 0, 0, False
            elif p:
                key = (int(p.group(1)), cond)
                if key not in macro:
                    raise ValueError("%s: arm %r uses macro arm %r which does not exist" % (fname, name, key))
                ty = p.group(2)
                npar, msg, _ = macro[key]
                chk = True
            else:
                raise ValueError("%s: arm %r has an unrecognised body: %r" % (fname, name, arm[:80]))
            rows.append((name, ty, gate_arity(repo, ty), npar, msg, chk))
        pos = bend
        mm2 = re.compile(r"\s*,").match(blk, pos)
        if mm2:
            pos = mm2.end()
    if not default_seen:
        raise ValueError("%s: no default arm" % fname)
    # the match must be on the lowercased name and the result mapped Ok -> new(), Err -> error(to_string)
    if not re.search(r"Ok\(_\)\s*=>\s*CResult::new\(\)", body) or \
       not re.search(r"Err\(err\)\s*=>\s*CResult::error\(&err\.to_string\(\)\)", body):
        raise ValueError("%s: result mapping Ok->new / Err->error(to_string) not found" % fname)
    return rows


def rows_lean(rows):
    return lean_list(["(%s, %s, %d, %d, %d, %s)" % (lean_str(n), lean_str(t), a, p, m, "true" if c else "false") for n, t, a, p, m, c in rows], per_line=True)


@T.generator("FfiTables")
def gen_tables(repo):
    src = ffi_source(repo)
    fns = {n: (a, r, b) for n, a, r, b in extern_fns(src)}
    for need in ("circuit_add_gate", "circuit_add_conditional_gate", "result_free"):
        if need not in fns:
            raise ValueError("extern fn %s not found" % need)
    macro = parse_macro(src)
    gate_rows = parse_dispatch(repo, "circuit_add_gate", fns["circuit_add_gate"][2], macro, False)
    cond_rows = parse_dispatch(repo, "circuit_add_conditional_gate", fns["circuit_add_conditional_gate"][2], macro, True)
    codes = re.findall(r"const\s+(RESULT_\w+)\s*:\s*u32\s*=\s*(\d+)\s*;", src)
    if not codes:
        raise ValueError("no RESULT_* constants")
    # literal error messages per entry point, in source order; `format!` ones keep their template
    msgs = []
    for n, a, r, b in extern_fns(src):
        lits = re.findall(r'CResult::error\(\s*(?:&format!\(\s*)?"((?:[^"\\]|\\.)*)"', b)
        asserts = len(re.findall(r"assert!\(\s*!ptr\.is_null\(\)\s*\)", b))
        msgs.append((n, lits, asserts))
    # CResult::free: restype dispatch
    m = re.search(r"fn\s+free\s*\(\s*self\s*\)\s*\{", src)
    if not m:
        raise ValueError("CResult::free not found")
    fbody = src[m.end() - 1: balanced(src, m.end() - 1)]
    mm = re.search(r"match\s+self\.restype\s*\{", fbody)
    if not mm:
        raise ValueError("CResult::free: match self.restype not found")
    blk = fbody[mm.end() - 1: balanced(fbody, mm.end() - 1)]
    free_rows, pos = [], 1
    arm_re = re.compile(r"\s*([A-Z_|\s_]+?)\s*=>\s*\{")
    while True:
        am = arm_re.match(blk, pos)
        if not am:
            break
        bstart = am.end() - 1
        bend = balanced(blk, bstart)
        arm = blk[bstart:bend]
        pats = [p.strip() for p in am.group(1).split("|")]
        if "cstring_free(self.data as *mut c_char)" in arm.replace("\n", " ") and "Vec::from_raw_parts" not in arm:
            act = "cstring"
        elif re.search(r"self\.data\s+as\s+\*mut\s+CHistElem", arm) and \
                re.search(r"Vec::from_raw_parts\(\s*ptr\s*,\s*self\.length\s*,\s*self\.size\s*\)", arm) and \
                re.search(r"for\s+elem\s+in\s+elems\.iter_mut\(\)", arm) and "cstring_free(ptr as *mut c_char)" in arm:
            act = "histvec"
        elif re.search(r"self\.data\s+as\s+\*mut\s+u64", arm) and \
                re.search(r"Vec::from_raw_parts\(\s*ptr\s*,\s*self\.length\s*,\s*self\.size\s*\)", arm):
            act = "u64vec"
        elif re.fullmatch(r"\{\s*\}", arm):
            act = "nothing"
        else:
            raise ValueError("CResult::free: unrecognised arm for %s: %r" % (pats, arm[:100]))
        for p in pats:
            free_rows.append((p, act))
        pos = bend
        cm = re.compile(r"\s*,").match(blk, pos)
        if cm:
            pos = cm.end()
    if not free_rows:
        raise ValueError("CResult::free: no arms")
    # canonical form of a match over disjoint constants: every RESULT_* code gets its action (an explicit arm, or the
    # action of the catch-all arm when it has none), listed by code name, then the catch-all.  `RESULT_EMPTY|_ => {}` and
    # `_ => {}` and arms in another order are the same function restype -> action and give the same table.
    acts = dict(free_rows)
    if "_" not in acts:
        raise ValueError("CResult::free: no catch-all arm")
    unknown = [p for p, _ in free_rows if p != "_" and p not in [n for n, _ in codes]]
    if unknown:
        raise ValueError("CResult::free: arm for an unknown code %r" % unknown)
    first = {}
    for p, a in free_rows:          # first matching arm wins
        first.setdefault(p, a)
    free_rows = [(n, first.get(n, first["_"])) for n in sorted(n for n, _ in codes)] + [("_", first["_"])]
    # cstring helpers and the CResult constructors (which restype, which Vec leaked)
    def need(rx, what):
        if not re.search(rx, src, flags=re.S):
            raise ValueError("ffi.rs: %s no longer has the recognised shape" % what)
    need(r"fn\s+to_cstring\(msg:\s*&str\)\s*->\s*\*const\s+c_char\s*\{\s*let\s+cstring\s*=\s*::std::ffi::CString::new\(msg\)\.unwrap\(\);\s*"
         r"let\s+ptr\s*=\s*cstring\.as_ptr\(\);\s*::std::mem::forget\(cstring\);\s*ptr\s*\}", "to_cstring")
    need(r"fn\s+cstring_free\(ptr:\s*\*mut\s+c_char\)\s*\{\s*unsafe\s*\{\s*::std::ffi::CString::from_raw\(ptr\);\s*\}\s*\}", "cstring_free")
    ctors = []
    im = re.search(r"impl\s+CResult\s*\{", src)
    if not im:
        raise ValueError("impl CResult not found")
    isrc = src[im.end() - 1: balanced(src, im.end() - 1)]
    for cname in ("new", "error", "string", "histogram", "c_state"):
        cm = re.search(r"fn\s+%s\s*\(([^)]*)\)\s*->\s*Self\s*\{" % cname, isrc)
        if not cm:
            raise ValueError("CResult::%s not found" % cname)
        cb = isrc[cm.end() - 1: balanced(isrc, cm.end() - 1)]
        rt = re.search(r"restype\s*:\s*(RESULT_\w+)", cb)
        ln = re.search(r"length\s*:\s*(\w+)", cb)
        sz = re.search(r"size\s*:\s*(\w+)", cb)
        if not (rt and ln and sz):
            raise ValueError("CResult::%s: fields not recognised" % cname)
        if cname == "new":
            data = "null" if re.search(r"data\s*:\s*::std::ptr::null\(\)", cb) else None
        elif cname in ("error", "string"):
            data = "cstring" if re.search(r"data\s*:\s*to_cstring\(msg\)\s+as\s+\*const\s+::std::ffi::c_void", cb) else None
        else:
            ok = re.search(r"let\s+ptr\s*=\s*elems\.as_ptr\(\);\s*let\s+length\s*=\s*elems\.len\(\);\s*let\s+size\s*=\s*elems\.capacity\(\);\s*"
                           r"::std::mem::forget\(elems\);", cb)
            if cname == "histogram":
                ok = ok and re.search(r"let\s+elems:\s*Vec<CHistElem>\s*=\s*hist\.iter\(\)\.map\(\|\(k,\s*&v\)\|\s*CHistElem::new\(k,\s*v\)\)\.collect\(\);", cb)
                data = "histvec" if ok else None
            else:
                ok = ok and re.search(r"let\s+elems\s*=\s*state\.to_vec\(\);", cb)
                data = "u64vec" if ok else None
        if data is None:
            raise ValueError("CResult::%s: body not recognised" % cname)
        lens = {"0": "zero", "length": "len"}.get(ln.group(1))
        sizes = {"0": "zero", "size": "cap"}.get(sz.group(1))
        if lens is None or sizes is None:
            raise ValueError("CResult::%s: length/size expressions not recognised" % cname)
        ctors.append((cname, rt.group(1), data, lens, sizes))
    need(r"CHistElem\s*\{\s*key:\s*to_cstring\(key\),\s*count:\s*count\s*\}", "CHistElem::new")
    out = T.header("FfiTables", "src/ffi.rs (dispatch matches, RESULT_* codes, messages, CResult constructors/free) and src/gates/*.rs (arity)")
    out += "/-- arms of `circuit_add_gate`: (lower-case name, Rust gate type, arity of that type,\n"
    out += "number of parameters taken, count printed in the InvalidNrArguments message, whether the arm\n"
    out += "checks `params.len()` at all — the arms of gates without parameters ignore `params`). -/\n"
    out += "def gateTable : List (String × String × Nat × Nat × Nat × Bool) := %s\n\n" % rows_lean(gate_rows)
    out += "/-- arms of `circuit_add_conditional_gate`, same columns. -/\n"
    out += "def condTable : List (String × String × Nat × Nat × Nat × Bool) := %s\n\n" % rows_lean(cond_rows)
    out += "def resultCodesRust : List (String × Nat) := %s\n\n" % lean_list(["(%s, %s)" % (lean_str(n), v) for n, v in codes])
    out += "/-- per entry point: literal `CResult::error` messages in source order, number of `assert!(!ptr.is_null())`. -/\n"
    out += "def errorLiterals : List (String × List String × Nat) := %s\n\n" % lean_list(
        ["(%s, %s, %d)" % (lean_str(n), lean_list([lean_str(bytes(l, "utf-8").decode("unicode_escape")) for l in ls]), a) for n, ls, a in msgs], per_line=True)
    out += "/-- `CResult::free`: restype pattern ↦ what is released. -/\n"
    out += "def freeArms : List (String × String) := %s\n\n" % lean_list(["(%s, %s)" % (lean_str(p), lean_str(a)) for p, a in free_rows])
    out += "/-- `CResult` constructors: (name, restype, what `data` points to, `length` field, `size` field). -/\n"
    out += "def resultCtors : List (String × String × String × String × String) := %s\n" % lean_list(
        ["(%s, %s, %s, %s, %s)" % tuple(lean_str(x) for x in c) for c in ctors], per_line=True)
    return out + T.FOOTER


# ---------------------------------------------------------------------------------------------
# FfiSigs

RUST_TY = {
    "usize": "size", "u64": "u64", "u32": "u32", "u8": "u8", "c_char": "char", "f64": "f64",
    "CResult": "struct result", "()": "void",
}
RUST_PTR = {"Circuit": "circuit", "c_char": "char", "usize": "size", "CParameter": "struct parameter",
            "f64": "f64", "::std::ffi::c_void": "void", "u64": "u64", "CHistElem": "struct histelem"}
C_TY = {"size_t": "size", "uint64_t": "u64", "uint32_t": "u32", "uint8_t": "u8", "char": "char", "double": "f64",
        "result_t": "struct result", "void": "void", "circuit_t": "circuit", "parameter_t": "struct parameter",
        "histelem_t": "struct histelem"}


def rust_type(t):
    t = t.strip()
    m = re.fullmatch(r"\*(const|mut)\s+(.+)", t)
    if m:
        if m.group(2).strip() not in RUST_PTR:
            raise ValueError("rust pointer type %r not recognised" % t)
        return ("const " if m.group(1) == "const" else "") + "ptr " + RUST_PTR[m.group(2).strip()]
    if t not in RUST_TY:
        raise ValueError("rust type %r not recognised" % t)
    return RUST_TY[t]


def c_type(t):
    t = re.sub(r"\s+", " ", t.replace("*", " * ")).strip()
    toks = t.split(" ")
    const = "const" in toks
    toks = [x for x in toks if x != "const"]
    stars = toks.count("*")
    base = [x for x in toks if x != "*"]
    if len(base) != 1 or base[0] not in C_TY or stars > 1:
        raise ValueError("C type %r not recognised" % t)
    if stars:
        return ("const " if const else "") + "ptr " + C_TY[base[0]]
    return C_TY[base[0]]


def split_args(s):
    return [a.strip() for a in s.split(",") if a.strip()]


@T.generator("FfiSigs")
def gen_sigs(repo):
    src = ffi_source(repo)
    rust_sigs = []
    for n, a, r, b in extern_fns(src):
        args = []
        for arg in split_args(re.sub(r"\s+", " ", a)):
            m = re.fullmatch(r"(\w+)\s*:\s*(.+)", arg)
            if not m:
                raise ValueError("%s: argument %r" % (n, arg))
            args.append(rust_type(m.group(2)))
        rust_sigs.append((n, args, rust_type(r)))
    rust_structs = []
    for m in re.finditer(r"((?:#\[[^\]]*\]\s*)*)pub\s+struct\s+(\w+)\s*\{", src):
        body = src[m.end() - 1: balanced(src, m.end() - 1)][1:-1]
        fields = []
        for f in split_args(re.sub(r"\s+", " ", body)):
            fm = re.fullmatch(r"(?:pub\s+)?(\w+)\s*:\s*(.+)", f)
            if not fm:
                raise ValueError("struct %s: field %r" % (m.group(2), f))
            fields.append((fm.group(1), rust_type(fm.group(2))))
        rust_structs.append((m.group(2), "repr(C)" in m.group(1), fields))
    py = T.read(repo, "python/q1tsimffi.py")
    m = re.search(r'ffi\.cdef\(\s*"""(.*?)"""\s*\)', py, flags=re.S)
    if not m:
        raise ValueError("ffi.cdef(\"\"\"...\"\"\") not found in python/q1tsimffi.py")
    cdef = m.group(1)
    py_structs = []
    def struct_sub(sm):
        fields = []
        for f in [x.strip() for x in sm.group(1).split(";") if x.strip()]:
            fm = re.fullmatch(r"(.+?)(\w+)", f, flags=re.S)
            if not fm:
                raise ValueError("cdef struct field %r" % f)
            fields.append((fm.group(2), c_type(fm.group(1))))
        py_structs.append((sm.group(2), fields))
        return ""
    rest = re.sub(r"typedef\s+struct\s*\{(.*?)\}\s*(\w+)\s*;", struct_sub, cdef, flags=re.S)
    rest = re.sub(r"typedef\s+struct\s+\w+\s+\w+\s*;", "", rest)
    py_sigs = []
    for decl in [d.strip() for d in rest.split(";") if d.strip()]:
        dm = re.fullmatch(r"(.+?)(\w+)\s*\((.*)\)", re.sub(r"\s+", " ", decl))
        if not dm:
            raise ValueError("cdef declaration %r" % decl)
        args = []
        for arg in split_args(dm.group(3)):
            am = re.fullmatch(r"(.+?)(\w+)", arg)
            if not am:
                raise ValueError("cdef argument %r" % arg)
            args.append(c_type(am.group(1)))
        py_sigs.append((dm.group(2), args, c_type(dm.group(1))))
    py_codes = re.findall(r"^(RESULT_\w+)\s*=\s*(\d+)\s*$", py, flags=re.M)
    # which restype values unpack_result handles
    unpack = re.findall(r"res(?:\.res)?type\s*==\s*(RESULT_\w+)", py)

    def sig_lean(s):
        return "(%s, %s, %s)" % (lean_str(s[0]), lean_list([lean_str(x) for x in s[1]]), lean_str(s[2]))
    def st_lean(name, fields):
        return "(%s, %s)" % (lean_str(name), lean_list(["(%s, %s)" % (lean_str(a), lean_str(b)) for a, b in fields]))
    out = T.header("FfiSigs", "src/ffi.rs (extern \"C\" signatures, #[repr(C)] structs) and python/q1tsimffi.py (cdef, RESULT_* codes)")
    out += "/-! Types are normalised to one vocabulary: size u64 u32 u8 char f64 void, `ptr T` / `const ptr T`, `struct S`. -/\n\n"
    out += "def rustSigs : List (String × List String × String) := %s\n\n" % lean_list([sig_lean(s) for s in rust_sigs], per_line=True)
    out += "def pySigs : List (String × List String × String) := %s\n\n" % lean_list([sig_lean(s) for s in py_sigs], per_line=True)
    out += "/-- (struct name, fields in order) of every `#[repr(C)] pub struct` in ffi.rs. -/\n"
    out += "def rustStructs : List (String × List (String × String)) := %s\n\n" % lean_list(
        [st_lean(n, f) for n, rc, f in rust_structs if rc], per_line=True)
    out += "def rustStructsNotReprC : List String := %s\n\n" % lean_list([lean_str(n) for n, rc, f in rust_structs if not rc])
    out += "def pyStructs : List (String × List (String × String)) := %s\n\n" % lean_list([st_lean(n, f) for n, f in py_structs], per_line=True)
    out += "def resultCodesPy : List (String × Nat) := %s\n\n" % lean_list(["(%s, %s)" % (lean_str(n), v) for n, v in py_codes])
    out += "/-- RESULT_* names that `unpack_result` tests for. -/\n"
    out += "def pyUnpackHandles : List String := %s\n" % lean_list([lean_str(u) for u in sorted(set(unpack))])
    return out + T.FOOTER

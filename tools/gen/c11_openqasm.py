"""C11 generator: how every library gate writes itself in OpenQASM (OpenQasmTemplates).

Re-extracted from /repo on every check:
  * every hand-written `impl crate::export::OpenQasm for <Gate>` of src/gates/*.rs: the `format!` string of
    `open_qasm` (split at its holes), what fills each hole, an optional leading `check_nr_bits`, whether
    `conditional_open_qasm` is overridden;
  * every `declare_controlled!` of src/gates/controlled.rs: the `open_qasm=` template and the `arg=` names, or
    the fact that the gate has no template (first arm of `declare_controlled_qasm!`: lower-cased struct name,
    parenthesised arguments, qubits);
  * the constructor parameter names of every gate (order of `new`);
  * the separators of the structural gates (Kron, Composite, Loop), the format of the default
    `conditional_open_qasm` (src/export/openqasm.rs) and the texts `Circuit::open_qasm` (src/circuit.rs) writes:
    header, declarations, bit names, one statement format per case and per measurement basis, in a fixed order
    (case by case, independent of the order of the match arms);
  * the code around them that the model is written for (the macro body, `check_open_qasm_condition_bits`,
    the condition word loop, `is_full_register`, the absence of an `impl OpenQasm for C<G>`).
The function bodies are read by a small statement reader (below): comparison is modulo white space, the ways of
building a string (`format!`, `+`, `+=`, `push_str`, `[..].join(sep)`, `String::from`, argument-less `format!`)
are reduced to one normal form (format string + hole expressions), immutable `let`s are followed, `if !c {a} else {b}`
is read as `if c {b} else {a}`, and calls of private helpers taking the output string (`Self::f(&mut res, ..)?;`) are
inlined one level.  The generator raises ValueError on anything else (the check then escalates: see vlib)."""
import os, re
import translate as T

NAME = "OpenQasmTemplates"


def lean_str(s):
    out = '"'
    for ch in s:
        if ch == "\\":
            out += "\\\\"
        elif ch == '"':
            out += '\\"'
        elif ch == "\n":
            out += "\\n"
        else:
            out += ch
    return out + '"'


def lean_chars(s):
    """a Lean `List Char` literal (String.toList of a long literal is very slow in the kernel)"""
    def ch(c):
        if c == "\\":
            return "'\\\\'"
        if c == "'":
            return "'\\''"
        if c == "\n":
            return "'\\n'"
        return "'%s'" % c
    return "[" + ", ".join(ch(c) for c in s) + "]"


def unescape(s):
    """value of the inside of a (non-raw) Rust string literal"""
    out, i = [], 0
    simple = {"n": "\n", "t": "\t", "r": "\r", "0": "\0", "\\": "\\", '"': '"', "'": "'"}
    while i < len(s):
        c = s[i]
        if c != "\\":
            out.append(c); i += 1
            continue
        d = s[i + 1]
        if d in simple:
            out.append(simple[d]); i += 2
        elif d == "\n":                      # line continuation: the newline and the following white space vanish
            i += 2
            while i < len(s) and s[i] in " \t\n\r":
                i += 1
        elif d == "x":
            out.append(chr(int(s[i + 2:i + 4], 16))); i += 4
        elif d == "u" and s[i + 2] == "{":
            j = s.index("}", i)
            out.append(chr(int(s[i + 3:j].replace("_", ""), 16))); i = j + 1
        else:
            raise ValueError(NAME + ": unknown escape in string literal %r" % s)
    return "".join(out)


LIT = r'r#"(.*?)"#|r"([^"]*)"|"((?:[^"\\]|\\.)*)"'


def literal_value(m):
    if m.group(1) is not None:
        return m.group(1)
    if m.group(2) is not None:
        return m.group(2)
    return unescape(m.group(3))


def rust_literals(code):
    return [literal_value(m) for m in re.finditer(LIT, code, flags=re.S)]


def block_after(src, start):
    """brace-balanced block starting at the first `{` at or after `start`; returns (text, end)."""
    i = src.index("{", start)
    depth, j = 0, i
    in_str = False
    while True:
        c = src[j]
        if in_str:
            if c == "\\":
                j += 1
            elif c == '"':
                in_str = False
        elif c == '"':
            in_str = True
        elif c == "'" and src[j + 2] == "'":
            j += 2
        elif c == "{":
            depth += 1
        elif c == "}":
            depth -= 1
            if depth == 0:
                return src[i:j + 1], j + 1
        j += 1


def fmt_pieces(fmt):
    """Rust format string -> list of literal pieces around its `{}` holes (n holes -> n+1 pieces)."""
    pieces, cur, i = [], "", 0
    while i < len(fmt):
        if fmt.startswith("{{", i):
            cur += "{"; i += 2
        elif fmt.startswith("}}", i):
            cur += "}"; i += 2
        elif fmt[i] == "{":
            j = fmt.index("}", i)
            if fmt[i + 1:j] != "":
                raise ValueError(NAME + ": format hole with a spec: %r" % fmt)
            pieces.append(cur); cur = ""; i = j + 1
        else:
            cur += fmt[i]; i += 1
    pieces.append(cur)
    return pieces


def split_args(s):
    out, depth, cur = [], 0, ""
    for ch in s:
        if ch in "([":
            depth += 1
        elif ch in ")]":
            depth -= 1
        if ch == "," and depth == 0:
            out.append(cur.strip()); cur = ""
        else:
            cur += ch
    if cur.strip():
        out.append(cur.strip())
    return out


def lean_list(xs):
    return "[" + ", ".join(xs) + "]"


def new_params(src, name):
    m = re.search(r"impl\s+%s\s*\{" % name, src)
    if not m:
        return None
    body, _ = block_after(src, m.start())
    nm = re.search(r"pub\s+fn\s+new\s*(?:<[^>]*>)?\s*\(([^)]*)\)", body)
    if not nm:
        return None
    return [a.split(":")[0].strip() for a in split_args(nm.group(1))]


def fn_body(block, fname):
    m = re.search(r"fn\s+%s\s*\(" % fname, block)
    if not m:
        return None
    body, _ = block_after(block, m.end())
    return body


def nr_bits_literal(all_src, ty):
    for src in all_src.values():
        m = re.search(r"impl\s+crate::gates::Gate\s+for\s+%s\s*\{" % ty, src)
        if m:
            body, _ = block_after(src, m.start())
            nb = re.search(r"fn\s+nr_affected_bits\s*\(&self\)\s*->\s*usize\s*\{\s*(\d+)\s*\}", body)
            if nb:
                return int(nb.group(1))
            if re.search(r"fn\s+nr_affected_bits\s*\(&self\)\s*->\s*usize\s*\{\s*self\.cgate\.nr_affected_bits\(\)\s*\}", body):
                sm = re.search(r"struct\s+%s\s*\{[^}]*cgate:\s*crate::gates::C<crate::gates::(\w+)>" % ty, src, flags=re.S)
                if sm:
                    return 1 + nr_bits_literal(all_src, sm.group(1))
    raise ValueError(NAME + ": nr_affected_bits of %s is not a literal" % ty)


def lex_top(text):
    """(kind, text) items of a macro argument text: ("lit", value) for string literals (plain, raw), ("sym", char) else"""
    i = 0
    lit = re.compile(LIT, flags=re.S)
    while i < len(text):
        m = lit.match(text, i)
        if m and (m.group(3) is not None or i == 0 or not (text[i - 1].isalnum() or text[i - 1] == "_")):
            yield ("lit", literal_value(m), text[i:m.end()]); i = m.end()
        else:
            yield ("sym", text[i], text[i]); i += 1


def macro_fields(text):
    """`key=value` arguments (top level, string-aware) of a macro invocation, in order; values as source text"""
    parts, cur, depth = [], "", 0
    for kind, val, raw in lex_top(text):
        if kind == "sym" and val in "([{":
            depth += 1
        elif kind == "sym" and val in ")]}":
            depth -= 1
        if kind == "sym" and val == "," and depth == 0:
            parts.append(cur); cur = ""
        else:
            cur += raw
    parts.append(cur)
    out = []
    for p in parts:
        m = re.match(r"\s*(\w+)\s*=(?!=)(.*)$", p, flags=re.S)
        if m:
            out.append((m.group(1), m.group(2)))
    return out


def const_string(expr, what):
    """value of a constant string expression: a literal (plain with escapes and line continuations, raw) or
    `concat!(..)` of such expressions (integer and boolean literals, as `concat!` allows, included)"""
    e = expr.strip()
    m = re.match(LIT, e, flags=re.S)
    if m and m.end() == len(e):
        return literal_value(m)
    if re.match(r"concat!\s*[(\[{]", e) and e[-1] in ")]}":
        inner = e[e.index("!") + 1:].strip()[1:-1]
        parts, cur, depth = [], "", 0
        for kind, val, raw in lex_top(inner):
            if kind == "sym" and val in "([{":
                depth += 1
            elif kind == "sym" and val in ")]}":
                depth -= 1
            if kind == "sym" and val == "," and depth == 0:
                parts.append(cur); cur = ""
            else:
                cur += raw
        if cur.strip():
            parts.append(cur)
        return "".join(const_string(p, what) for p in parts)
    if re.fullmatch(r"\d+|true|false", e):
        return e
    raise ValueError(NAME + ": %s is not a constant string this generator can evaluate: %r" % (what, e[:80]))


def require(cond, what):
    if not cond:
        raise ValueError(NAME + ": " + what)


def squash(s):
    return "".join(s.split())


# ---------------------------------------------------------------------------------------------------------
# A small reader of Rust function bodies.  It recognises only what the export functions use (`let`, `if`/`else`,
# `match`, `for`, `return`, plain statements); everything is compared modulo white space, and the ways of building
# a string (`format!`, `+`, `+=`, `push_str`, `[..].join(sep)`, `String::from`) are reduced to one normal form:
# a format string with `{}` holes and the list of expressions that fill them.

STR = r'"(?:[^"\\]|\\.)*"'


def squash_keep(s):
    """remove white space outside string literals"""
    out, i = [], 0
    while i < len(s):
        c = s[i]
        if c == '"':
            j = i + 1
            while s[j] != '"':
                if s[j] == "\\":
                    j += 1
                j += 1
            out.append(s[i:j + 1]); i = j + 1
        elif c.isspace():
            i += 1
        else:
            out.append(c); i += 1
    return "".join(out)


def scan(s, i, stops, braces=True):
    """index of the first character among `stops` (of the arrow, if `stops` is "=>") at nesting depth 0, or len(s)"""
    depth = 0
    opens, closes = ("([{", ")]}") if braces else ("([", ")]")
    while i < len(s):
        c = s[i]
        if c == '"':
            i += 1
            while s[i] != '"':
                if s[i] == "\\":
                    i += 1
                i += 1
        elif depth == 0 and (s.startswith("=>", i) if stops == "=>" else c in stops):
            return i
        elif c in opens:
            depth += 1
        elif c in closes:
            depth -= 1
        i += 1
    return len(s)


def split_top(s, sep):
    out, i = [], 0
    while True:
        j = scan(s, i, sep)
        out.append(s[i:j])
        if j >= len(s):
            return out
        i = j + 1


def skip_ws(s, i, extra=""):
    while i < len(s) and (s[i].isspace() or s[i] in extra):
        i += 1
    return i


KW = re.compile(r"(match|if|for|let|return)\b")


def parse_if(s, i):
    j = scan(s, i + 2, "{", braces=False)
    cond = squash_keep(s[i + 2:j])
    blk, end = block_after(s, j)
    then = parse_stmts(blk[1:-1])
    k = skip_ws(s, end)
    em = re.compile(r"else\b").match(s, k)
    if not em:
        return ("if", cond, then, None), end
    k = skip_ws(s, em.end())
    if re.compile(r"if\b").match(s, k):
        node, end = parse_if(s, k)
        return ("if", cond, then, [node]), end
    blk, end = block_after(s, k)
    return ("if", cond, then, parse_stmts(blk[1:-1])), end


def parse_arms(s):
    arms, i = [], 0
    while True:
        i = skip_ws(s, i, ",")
        if i >= len(s):
            return arms
        j = scan(s, i, "=>")
        require(j < len(s), "match arm without `=>`: %r" % s[i:i + 60])
        pat = squash_keep(s[i:j])
        k = skip_ws(s, j + 2)
        if s[k] == "{":
            blk, i = block_after(s, k)
            arms.append((pat, parse_stmts(blk[1:-1])))
        else:
            e = scan(s, k, ",")
            arms.append((pat, parse_stmts(s[k:e])))
            i = e


def parse_stmts(s):
    """statements of a block (text between its braces) as a list of nodes:
    ("let", name, mutable, expr) | ("if", cond, then, else|None) | ("match", scrutinee, [(pattern, nodes)]) |
    ("for", pattern, iterator, nodes) | ("return", expr) | ("stmt", text); all texts white-space free."""
    nodes, i = [], 0
    while True:
        i = skip_ws(s, i, ";")
        if i >= len(s):
            return nodes
        m = KW.match(s, i)
        kw = m.group(1) if m else None
        if kw == "match":
            j = scan(s, m.end(), "{", braces=False)
            blk, i2 = block_after(s, j)
            nodes.append(("match", squash_keep(s[m.end():j]), parse_arms(blk[1:-1])))
            i = i2
        elif kw == "if":
            node, i = parse_if(s, i)
            nodes.append(node)
        elif kw == "for":
            j = scan(s, m.end(), "{", braces=False)
            hm = re.match(r"\s*(.*?)\s+in\s+(.*)$", s[m.end():j], flags=re.S)
            require(hm, "unrecognised for loop: %r" % s[i:j])
            blk, i2 = block_after(s, j)
            nodes.append(("for", squash_keep(hm.group(1)), squash_keep(hm.group(2)), parse_stmts(blk[1:-1])))
            i = i2
        else:
            j = scan(s, i, ";")
            text = s[i:j]
            lm = re.match(r"let\s+(mut\s+)?(\w+)\s*(?::[^=]+?)?\s*=(?!=)\s*(.*)$", text, flags=re.S) if kw == "let" else None
            if lm:
                nodes.append(("let", lm.group(2), bool(lm.group(1)), squash_keep(lm.group(3))))
            elif kw == "return":
                nodes.append(("return", squash_keep(text[6:])))
            else:
                nodes.append(("stmt", squash_keep(text)))
            i = j + 1


def esc(lit):
    return lit.replace("{", "{{").replace("}", "}}")


def strip_ref(e):
    """`&x`, `x.as_str()`, `x.clone()`, `&x[..]`-free spellings of the same string"""
    while True:
        if e.startswith("&"):
            e = e[1:]
        elif e.endswith(".as_str()"):
            e = e[:-9]
        elif e.endswith(".clone()") and re.fullmatch(r"\w+\.clone\(\)", e):
            e = e[:-8]
        else:
            return e


def string_expr(e):
    """normal form (format string, hole expressions) of a string-valued expression (white-space free text)"""
    e = strip_ref(e)
    m = re.fullmatch(STR, e)
    if m:
        return esc(unescape(e[1:-1])), []
    m = re.fullmatch(r"String::from\((%s)\)|(%s)\.to_string\(\)|(%s)\.to_owned\(\)|String::from\((%s)\.to_string\(\)\)" % (STR, STR, STR, STR), e)
    if m:
        lit = next(g for g in m.groups() if g is not None)
        return esc(unescape(lit[1:-1])), []
    if e == "String::new()":
        return "", []
    if e.startswith("format!(") and scan(e, 8, ")") == len(e) - 1:
        parts = split_top(e[8:-1], ",")
        require(re.fullmatch(STR, parts[0]), "format! without a literal format string: %r" % e)
        fmt = unescape(parts[0][1:-1])
        fmt_pieces(fmt)     # raises on holes with a spec
        args = [p for p in parts[1:] if p != ""]
        return fmt, args
    m = re.fullmatch(r"\[(.*)\]\.join\((%s)\)" % STR, e)
    if m and scan(e, 1, "]") == m.start(2) - 7:
        sep = esc(unescape(m.group(2)[1:-1]))
        items = [string_expr(x) for x in split_top(m.group(1), ",") if x != ""]
        return sep.join(f for f, _ in items), [a for _, aa in items for a in aa]
    terms = split_top(e, "+")
    if len(terms) > 1:
        items = [string_expr(t) for t in terms]
        return "".join(f for f, _ in items), [a for _, aa in items for a in aa]
    return "{}", [e]


def resolve(e, env):
    """follow immutable `let` bindings of plain identifiers"""
    seen = 0
    while True:
        e = strip_ref(e)
        if re.fullmatch(r"\w+", e) and e in env and seen < 8:
            e = env[e]; seen += 1
        else:
            return e


EMIT = re.compile(r"\*?(\w+)(\+=|\.push_str\()(.*)$", flags=re.S)


def as_emit(node, acc):
    """(format, holes) appended to the string variable `acc` by this statement, or None"""
    if node[0] != "stmt":
        return None
    m = EMIT.fullmatch(node[1])
    if not m or m.group(1) != acc:
        return None
    e = m.group(3)
    if m.group(2) != "+=":
        require(e.endswith(")"), "unrecognised push_str: %r" % node[1])
        e = e[:-1]
    return string_expr(e)


def summarise(nodes, acc, env=None):
    """nodes with every maximal run of statements appending to `acc` merged into one
    ("emit", format, holes, env) — env: the immutable `let`s in scope; `let`s are dropped from the list."""
    env = dict(env or {})
    out = []
    for nd in nodes:
        em = as_emit(nd, acc)
        if em is not None:
            fmt, args = em
            args = [resolve(a, env) for a in args]
            if out and out[-1][0] == "emit":
                out[-1] = ("emit", out[-1][1] + fmt, out[-1][2] + args, dict(env))
            else:
                out.append(("emit", fmt, args, dict(env)))
        elif nd[0] == "let":
            if nd[2]:
                env.pop(nd[1], None)
                out.append(("letmut", nd[1], nd[3]))
            else:
                env[nd[1]] = nd[3]
        elif nd[0] == "if":
            out.append(("if", nd[1], summarise(nd[2], acc, env), None if nd[3] is None else summarise(nd[3], acc, env)))
        elif nd[0] == "match":
            out.append(("match", nd[1], [(p, summarise(b, acc, env)) for p, b in nd[2]]))
        elif nd[0] == "for":
            out.append(("for", nd[1], nd[2], summarise(nd[3], acc, env)))
        else:
            out.append(nd)
    return out


def hole_formats(fmt):
    """a format with n holes as n one-hole formats (text before the first hole goes to the first)"""
    ps = fmt_pieces(fmt)
    require(len(ps) > 1, "no hole in %r" % fmt)
    return [esc(ps[0] if i == 0 else "") + "{}" + esc(ps[i + 1]) for i in range(len(ps) - 1)]


def straight_line_string(nodes, what):
    """(format, holes) returned by a function body without control flow: `let`s, appends to a local string, `Ok(e)`;
    also returns the non-string statements met on the way (squashed)."""
    env, accs, other = {}, {}, []
    for k, nd in enumerate(nodes):
        if nd[0] == "let":
            if nd[2]:
                accs[nd[1]] = string_expr(nd[3])
                accs[nd[1]] = (accs[nd[1]][0], [resolve(a, env) for a in accs[nd[1]][1]])
            else:
                env[nd[1]] = nd[3]
            continue
        if nd[0] == "stmt":
            m = EMIT.fullmatch(nd[1])
            if m and m.group(1) in accs:
                fmt, args = as_emit(nd, m.group(1))
                accs[m.group(1)] = (accs[m.group(1)][0] + fmt, accs[m.group(1)][1] + [resolve(a, env) for a in args])
                continue
            m = re.fullmatch(r"Ok\((.*)\)", nd[1], flags=re.S)
            if m and k == len(nodes) - 1:
                e = m.group(1)
                if e in accs:
                    return accs[e], other, env
                fmt, args = string_expr(resolve(e, env))
                return (fmt, [resolve(a, env) for a in args]), other, env
            other.append(nd[1])
            continue
        raise ValueError(NAME + ": %s: control flow in a body expected to be straight-line: %r" % (what, nd[:2]))
    raise ValueError(NAME + ": %s: no final Ok(..)" % what)


def fn_inner(block, fname, what):
    body = fn_body(block, fname)
    require(body is not None, "%s not found" % what)
    return body.strip()[1:-1]


def parse_handwritten(name, src, all_src):
    m = re.search(r"impl\s+crate::export::OpenQasm\s+for\s+%s\s*\{" % name, src)
    block, _ = block_after(src, m.start())
    override = "fn conditional_open_qasm" in block
    (fmt, holes), other, env = straight_line_string(parse_stmts(fn_inner(block, "open_qasm", "%s::open_qasm" % name)),
                                                    "%s::open_qasm" % name)
    check = "none"
    if other == ["self.check_nr_bits(bits.len())?"]:
        check = "(some %d)" % nr_bits_literal(all_src, name)
    else:
        require(other == [], "unrecognised statements in open_qasm of %s: %r" % (name, other))
    pieces = fmt_pieces(fmt)
    args = []
    for a in holes:
        bm = re.fullmatch(r"bit_names\[bits\[(\d+)\]\]", a)
        pm = re.fullmatch(r"self\.(\w+)", a)
        if bm:
            args.append(".bit %s" % bm.group(1))
        elif pm:
            args.append(".param %s" % lean_str(pm.group(1)))
        else:
            raise ValueError(NAME + ": unrecognised format argument %r in %s" % (a, name))
    if len(args) + 1 != len(pieces):
        raise ValueError(NAME + ": %s: %d holes, %d arguments" % (name, len(pieces) - 1, len(args)))
    kind = ".format %s %s %s" % (check, lean_list([lean_chars(p) for p in pieces]), lean_list(args))
    return kind, override


def find_nodes(nodes, kind):
    return [nd for nd in nodes if nd[0] == kind]


def structural_kron(block):
    out = []
    for meth, call in (("open_qasm", "open_qasm(bit_names,"), ("conditional_open_qasm", "conditional_open_qasm(condition,bit_names,")):
        what = "Kron::" + meth
        (fmt, holes), other, env = straight_line_string(parse_stmts(fn_inner(block, meth, what)), what)
        require(other == [], "%s has unrecognised statements %r" % (what, other))
        n0 = [k for k, v in env.items() if v == "self.g0.nr_affected_bits()"]
        require(len(n0) == 1, "%s no longer splits the bits at self.g0.nr_affected_bits()" % what)
        require(holes == ["self.g0.%s&bits[..%s])?" % (call, n0[0]), "self.g1.%s&bits[%s..])?" % (call, n0[0])],
                "%s no longer joins the exports of g0 and g1 on the two bit ranges: %r" % (what, holes))
        out.append(fmt)
    ps = fmt_pieces(out[1])
    require(len(ps) == 3 and ps[0] == "" and ps[2] == "", "Kron::conditional_open_qasm is no longer `<g0><separator><g1>`: %r" % out[1])
    return ([out[0]], [esc(ps[1])])


def structural_composite(block):
    out = []
    for meth, call in (("open_qasm", "open_qasm(bit_names,&gate_bits)?"), ("conditional_open_qasm", "conditional_open_qasm(condition,bit_names,&gate_bits)?")):
        what = "Composite::" + meth
        nodes = parse_stmts(fn_inner(block, meth, what))
        shape = summarise(nodes, "res")
        require(len(shape) == 3 and shape[0] == ("letmut", "res", "String::new()") and shape[2] == ("stmt", "Ok(res)")
                and shape[1][0] == "if" and shape[1][1] in ("self.ops.len()>0", "!self.ops.is_empty()") and shape[1][3] is None,
                "%s changed shape" % what)
        inner_raw = find_nodes(nodes, "if")[0][2]
        require(("let", "gate_bits", False, "self.ops[0].bits.iter().map(|&b|bits[b]).collect()") in inner_raw,
                "%s no longer maps the bits of its first operation through `bits`" % what)
        inner = shape[1][2]
        require(len(inner) == 2 and inner[0] == ("stmt", "res=self.ops[0].gate." + call) and inner[1][0] == "for"
                and inner[1][1:3] == ("op", "self.ops[1..].iter()"), "%s changed shape" % what)
        loop = inner[1][3]
        require(len(loop) == 1 and loop[0][0] == "emit", "%s: loop body changed shape" % what)
        _, fmt, holes, env = loop[0]
        require(holes == ["op.gate." + call] and env.get("gate_bits") == "op.bits.iter().map(|&b|bits[b]).collect()",
                "%s: loop no longer appends the export of `op` on the mapped bits: %r" % (what, holes))
        out.append(fmt)
    ps = fmt_pieces(out[1])
    require(len(ps) == 2 and ps[1] == "", "Composite::conditional_open_qasm no longer appends `<separator><gate>`: %r" % out[1])
    return ([out[0]], [esc(ps[0])])


def structural_loop(block):
    out = []
    for meth, call in (("open_qasm", "self.body.open_qasm(bit_names,bits)?"), ("conditional_open_qasm", "self.body.conditional_open_qasm(condition,bit_names,bits)?")):
        what = "Loop::" + meth
        shape = summarise(parse_stmts(fn_inner(block, meth, what)), "res")
        require(len(shape) == 1 and shape[0][0] == "if" and shape[0][1] == "self.nr_iterations==0"
                and shape[0][2] == [("stmt", "Ok(String::new())")] and shape[0][3] is not None, "%s changed shape" % what)
        els = shape[0][3]
        require(len(els) == 3 and els[0] == ("letmut", "res", "qasm_body.clone()") and els[1][0] == "for"
                and els[1][1:3] == ("_", "1..self.nr_iterations") and els[2] == ("stmt", "Ok(res)"), "%s changed shape" % what)
        loop = els[1][3]
        require(len(loop) == 1 and loop[0][0] == "emit", "%s: loop body changed shape" % what)
        _, fmt, holes, env = loop[0]
        require(holes == [call] and env.get("qasm_body") == call, "%s: loop no longer appends the export of the body: %r" % (what, holes))
        ps = fmt_pieces(fmt)
        require(len(ps) == 2 and ps[1] == "", "%s no longer appends `<separator><body>`: %r" % (what, fmt))
        out.append(esc(ps[0]))
    return ([out[0]], [out[1]])


def inline_helpers(body, src):
    """replace every statement `Self::f(args)?;` / `self.f(args)?;` of `body`, where `f` is a function of `src` with a
    `&mut String` parameter and no `return`, by the statements of `f` with the arguments substituted (one level)."""
    def repl(m):
        fname = m.group(1)
        fm = re.search(r"fn\s+%s\s*\(([^)]*)\)" % fname, src)
        if not fm or not re.search(r":\s*&mut\s+String", fm.group(1)):
            return m.group(0)
        params = [p.split(":")[0].strip() for p in split_args(fm.group(1)) if not re.fullmatch(r"&?(mut\s+)?self", p.strip())]
        args = [a.strip() for a in split_top(m.group(2), ",")]
        require(len(params) == len(args), "call of %s with %d arguments for %d parameters" % (fname, len(args), len(params)))
        hbody, _ = block_after(src, fm.end())
        inner = re.sub(r"Ok\(\(\)\)\s*$", "", hbody.strip()[1:-1].rstrip())
        require(not re.search(r"\breturn\b", inner), "helper %s returns early" % fname)
        sub = dict(zip(params, args))
        out, prev = [], ""
        for t in re.finditer(r'%s|\w+|\s+|.' % STR, inner, flags=re.S):
            tok = t.group(0)
            if tok in sub and prev != ".":
                tok = sub[tok]
            if not tok.isspace():
                prev = tok
            out.append(tok)
        return re.sub(r"\*\s*&mut\s+", "", "".join(out)) + "\n"
    return re.sub(r"\b[Ss]elf(?:::|\.)(\w+)\s*\(((?:[^()]|\([^()]*\))*)\)\s*\?\s*;", repl, body)


FULL = lambda xs, n: ("%s.len()==self.%s&&%s.iter().enumerate().all(|(i,&b)|i==b)" % (xs, n, xs),
                      "%s.len()==self.%s&&%s.iter().enumerate().all(|(i,&b)|b==i)" % (xs, n, xs))


def basis_prefix(arms, names_ok, bits_ok, what):
    """per basis: the one-hole formats and the operand names of the gates written before a measurement"""
    table = dict(arms)
    zs = [k for k in table if k in ("Basis::Z", "_")]
    require(set(table) - set(zs) == {"Basis::X", "Basis::Y"} and len(zs) == 1 and table[zs[0]] == [],
            "%s: basis cases are no longer X, Y and an empty rest: %r" % (what, sorted(table)))
    res = {}
    for basis, gates in (("Basis::X", ["H"]), ("Basis::Y", ["Sdg", "H"])):
        body = table[basis]
        require(len(body) == 1 and body[0][0] == "emit", "%s: %s case changed shape" % (what, basis))
        _, fmt, holes, env = body[0]
        got, names = [], []
        for h in holes:
            hm = re.fullmatch(r"crate::gates::(\w+)::new\(\)\.open_qasm\((.*),(&\[\w+\])\)\?", h)
            require(hm and hm.group(3) == bits_ok, "%s: %s case writes %r" % (what, basis, h))
            got.append(hm.group(1))
            names.append(names_ok(strip_ref(hm.group(2)), env))
        require(got == gates, "%s: %s case writes the gates %r, not %r" % (what, basis, got, gates))
        res[basis] = (hole_formats(fmt), names)
    return res


def circuit_lits(circ):
    cm = re.search(r"pub\s+fn\s+open_qasm\s*\(&self\)", circ)
    require(cm, "Circuit::open_qasm not found")
    cbody, _ = block_after(circ, cm.end())
    cbody = inline_helpers(cbody, circ)
    cs = squash_keep(cbody)
    nodes = parse_stmts(cbody.strip()[1:-1])
    top = summarise(nodes, "res")
    lits = [None] * 27
    # header and declarations
    require(top and top[0][0] == "letmut" and top[0][1] == "res" and top[-1] == ("stmt", "Ok(res)"), "Circuit::open_qasm changed shape")
    f0, a0 = string_expr(top[0][2])
    require(a0 == [], "Circuit::open_qasm: header has holes")
    lits[0] = f0
    for k, (reg, n, names) in enumerate((("qreg", "nr_qbits", "qbit_names"), ("creg", "nr_cbits", "cbit_names"))):
        decl = [nd for nd in top if nd[0] == "if" and nd[1] == "self.%s>0" % n]
        require(len(decl) == 1 and decl[0][3] is None and decl[0][2] and decl[0][2][0][0] == "emit" and decl[0][2][0][2] == ["self." + n],
                "Circuit::open_qasm no longer declares the %s when self.%s > 0" % (reg, n))
        lits[1 + 2 * k] = decl[0][2][0][1]
        ma = re.search(r"letmut%s=vec!\[\];" % names, cs) and re.search(
            r"for(\w+)in0\.\.self\.%s\{%s\.push\(format!\((%s),\1\)\);\}" % (n, names, STR), cs)
        mb = re.search(r"let%s(?::Vec<String>)?=\(0\.\.self\.%s\)\.map\(\|(\w+)\|format!\((%s),\1\)\)\.collect(?:::<Vec<String>>)?\(\);" % (names, n, STR), cs)
        mm = ma or mb
        require(mm, "Circuit::open_qasm: %s is no longer the list of `format!(.., i)` for i < self.%s" % (names, n))
        lits[2 + 2 * k] = unescape(mm.group(2)[1:-1])
    loops = [nd for nd in top if nd[0] == "for"]
    require(len(loops) == 1 and loops[0][1:3] == ("op", "self.ops.iter()") and len(loops[0][3]) == 1 and loops[0][3][0][0] == "match"
            and loops[0][3][0][1] in ("*op", "op"), "Circuit::open_qasm no longer matches on every operation in order")
    arms = dict(loops[0][3][0][2])
    want = {"CircuitOp::Gate(refgate,refbits)", "CircuitOp::ConditionalGate(refcontrol,target,refgate,refbits)",
            "CircuitOp::Measure(qbit,cbit,basis)", "CircuitOp::MeasureAll(refcbits,basis)", "CircuitOp::Peek(_,_,_)",
            "CircuitOp::PeekAll(_,_)", "CircuitOp::Reset(qbit)", "CircuitOp::ResetAll", "CircuitOp::Barrier(refqbits)"}
    require(set(arms) == want and len(loops[0][3][0][2]) == len(want), "Circuit::open_qasm: cases changed: %r" % sorted(arms))
    GATE = "gate.open_qasm(&qbit_names,bits)?"

    def one_emit(body, holes, what):
        require(len(body) == 1 and body[0][0] == "emit" and body[0][2] == holes, "Circuit::open_qasm: %s changed shape" % what)
        return body[0][1]
    lits[5] = one_emit(arms["CircuitOp::Gate(refgate,refbits)"], [GATE], "Gate case")
    # conditional gate
    cond = arms["CircuitOp::ConditionalGate(refcontrol,target,refgate,refbits)"]
    require(len(cond) == 1 and cond[0][0] == "if" and cond[0][1] == "control.is_empty()" and cond[0][3] is not None,
            "Circuit::open_qasm: ConditionalGate case changed shape")
    lits[6] = one_emit(cond[0][2], [GATE], "ConditionalGate case (empty control)")
    els = cond[0][3]
    require(len(els) == 4 and els[0] == ("stmt", "self.check_open_qasm_condition_bits(control)?") and els[1] == ("letmut", "starget", "0")
            and els[2] == ("for", "(tshift,sshift)", "control.iter().enumerate()", [("stmt", "starget|=((target>>tshift)&0x01)<<sshift")])
            and els[3][0] == "emit", "Circuit::open_qasm: ConditionalGate case no longer checks the control bits, permutes the target word and writes the gate")
    _, f8, h8, env8 = els[3]
    require(h8 == ["gate.conditional_open_qasm(&condition,&qbit_names,bits)?"] and "condition" in env8,
            "Circuit::open_qasm: ConditionalGate case writes %r" % (h8,))
    f7, a7 = string_expr(env8["condition"])
    require(a7 == ["starget"], "Circuit::open_qasm: condition no longer formats the permuted target word")
    lits[7], lits[8] = f7, f8
    # measure
    me = arms["CircuitOp::Measure(qbit,cbit,basis)"]
    require(len(me) == 2 and me[0][0] == "match" and me[0][1] == "basis", "Circuit::open_qasm: Measure case changed shape")

    def is_qbit_names(e, env):
        require(e == "qbit_names", "Circuit::open_qasm: Measure basis change no longer addresses qbit_names: %r" % e)
        return e
    pre = basis_prefix(me[0][2], is_qbit_names, "&[qbit]", "Circuit::open_qasm: Measure")
    lits[9:10] = pre["Basis::X"][0]
    lits[10:12] = pre["Basis::Y"][0]
    lits[12] = one_emit(me[1:], ["qbit_names[qbit]", "cbit_names[cbit]"], "Measure case")
    # measure all
    ma = arms["CircuitOp::MeasureAll(refcbits,basis)"]
    require(len(ma) == 2 and ma[0][0] == "match" and ma[0][1] == "basis" and ma[1][0] == "if" and ma[1][1] in FULL("cbits", "nr_cbits")
            and ma[1][3] is not None, "Circuit::open_qasm: MeasureAll case changed shape")

    def register_literal(e, env):
        e = resolve(e, env)
        rm = re.fullmatch(r"\[String::from\((%s)\)\]" % STR, e)
        require(rm, "Circuit::open_qasm: MeasureAll basis change addresses %r, not a one-name list" % e)
        return unescape(rm.group(1)[1:-1])
    pre = basis_prefix(ma[0][2], register_literal, "&[0]", "Circuit::open_qasm: MeasureAll")
    lits[13], lits[14] = pre["Basis::X"][1][0], pre["Basis::X"][0][0]
    require(pre["Basis::Y"][1][0] == pre["Basis::Y"][1][1], "Circuit::open_qasm: MeasureAll Y case addresses two different names")
    lits[15], lits[16], lits[17] = pre["Basis::Y"][1][0], pre["Basis::Y"][0][0], pre["Basis::Y"][0][1]
    lits[18] = one_emit(ma[1][2], [], "MeasureAll case (whole register)")
    loop = ma[1][3]
    require(len(loop) == 1 and loop[0][0] == "for" and loop[0][1:3] == ("(qbit,&cbit)", "cbits.iter().enumerate()"),
            "Circuit::open_qasm: MeasureAll case (bit by bit) changed shape")
    lits[19] = one_emit(loop[0][3], ["qbit_names[qbit]", "cbit_names[cbit]"], "MeasureAll case (bit by bit)")
    # peeks
    for k, key in ((20, "CircuitOp::Peek(_,_,_)"), (21, "CircuitOp::PeekAll(_,_)")):
        body = arms[key]
        pm = len(body) == 1 and body[0][0] == "return" and re.fullmatch(
            r"Err\(crate::error::Error::from\(crate::error::ExportError::ExportPeekInvalid\((%s)\)\)\)" % STR, body[0][1])
        require(pm, "Circuit::open_qasm: %s no longer returns ExportPeekInvalid" % key)
        lits[k] = unescape(pm.group(1)[1:-1])
    lits[22] = one_emit(arms["CircuitOp::Reset(qbit)"], ["qbit_names[qbit]"], "Reset case")
    lits[23] = one_emit(arms["CircuitOp::ResetAll"], [], "ResetAll case")
    ba = arms["CircuitOp::Barrier(refqbits)"]
    require(len(ba) == 1 and ba[0][0] == "if" and ba[0][1] in FULL("qbits", "nr_qbits") and ba[0][3] is not None,
            "Circuit::open_qasm: Barrier case changed shape")
    lits[24] = one_emit(ba[0][2], [], "Barrier case (whole register)")
    els = ba[0][3]
    require(len(els) == 1 and els[0][0] == "emit" and len(els[0][2]) == 1, "Circuit::open_qasm: Barrier case (listed bits) changed shape")
    jm = re.fullmatch(r"qbits\.iter\(\)\.map\(\|&b\|qbit_names\[b\]\.as_str\(\)\)\.collect::<Vec<&str>>\(\)\.join\((%s)\)" % STR, els[0][2][0])
    require(jm, "Circuit::open_qasm: Barrier case no longer joins the names of the listed bits: %r" % els[0][2][0])
    lits[25], lits[26] = els[0][1], unescape(jm.group(1)[1:-1])
    require(all(l is not None for l in lits), "Circuit::open_qasm: internal: literal missing")
    # the condition check and the register test
    km = re.search(r"fn\s+check_open_qasm_condition_bits", circ)
    require(km, "check_open_qasm_condition_bits not found")
    chk = parse_stmts(block_after(circ, km.end())[0].strip()[1:-1])
    require(len(chk) == 1 and chk[0][0] == "if" and chk[0][3] is not None, "check_open_qasm_condition_bits changed shape")
    _, c, th, el = chk[0]
    if c.startswith("!"):
        c, th, el = c[1:], el, th
    require(c == "self.is_full_register(control)" and th == [("stmt", "Ok(())")]
            and el == [("stmt", "Err(crate::error::ExportError::IncompleteConditionRegister)")], "check_open_qasm_condition_bits changed shape")
    fm = re.search(r"fn\s+is_full_register", circ)
    require(fm, "is_full_register not found")
    fb = squash_keep(block_after(circ, fm.end())[0])
    length = r"(?:letn=control\.len\(\);ifn!=self\.nr_cbits|(?:letn=control\.len\(\);)?ifcontrol\.len\(\)!=self\.nr_cbits)\{returnfalse;\}"
    copy = r"letmut(?P<v>\w+)(?::Vec<usize>)?=(?:control\.to_vec\(\)|control\.to_owned\(\)|vec!\[0;(?:n|control\.len\(\))\];(?P=v)\.copy_from_slice\(control\));"
    srt = r"(?P=v)\.sort(?:_unstable)?\(\);"
    test = (r"(?:for(?P<i>\w+)in0\.\.(?:n|control\.len\(\)|(?P=v)\.len\(\))\{if(?P=v)\[(?P=i)\]!=(?P=i)\{returnfalse;\}\}true"
            r"|(?P=v)\.iter\(\)\.enumerate\(\)\.all\(\|\((?P<j>\w+),&(?P<b>\w+)\)\|(?:(?P=b)==(?P=j)|(?P=j)==(?P=b))\))")
    require(re.fullmatch(r"\{" + length + copy + srt + test + r"\}", fb),
            "is_full_register is no longer: right length, and the sorted copy has `i` at position `i`")
    return lits


@T.generator(NAME)
def gen_OpenQasmTemplates(repo):
    gdir = os.path.join(repo, "src", "gates")
    all_src = {}
    for fn in sorted(os.listdir(gdir)):
        if fn.endswith(".rs"):
            all_src[fn] = T.strip_rust_comments(T.read(repo, "src/gates/" + fn)).split("#[cfg(test)]")[0]
    entries = {}     # name -> (params, kind, override)
    structural = {}
    for fn, src in all_src.items():
        for m in re.finditer(r"impl(?:<[^>]*>)?\s+crate::export::OpenQasm\s+for\s+(\w+)", src):
            name = m.group(1)
            if name in ("Kron", "Composite", "Loop"):
                block, _ = block_after(src, m.start())
                require("fn conditional_open_qasm" in block and "fn open_qasm" in block,
                        "%s no longer overrides both open_qasm and conditional_open_qasm" % name)
                structural[name] = {"Kron": structural_kron, "Composite": structural_composite, "Loop": structural_loop}[name](block)
                continue
            require(name != "C", "C<G> now implements OpenQasm")
            kind, override = parse_handwritten(name, src, all_src)
            params = new_params(src, name)
            require(params is not None, "no `new` found for %s" % name)
            entries[name] = (params, kind, override, nr_bits_literal(all_src, name))
    require(set(structural) == {"Kron", "Composite", "Loop"}, "Kron, Composite or Loop no longer implement OpenQasm")
    # the macro
    csrc = all_src["controlled.rs"]
    require(not re.search(r"impl<G>\s+crate::export::OpenQasm\s+for\s+C<G>", csrc), "C<G> now implements OpenQasm")
    mm = re.search(r"macro_rules!\s+declare_controlled_qasm", csrc)
    require(mm, "declare_controlled_qasm not found")
    macro, _ = block_after(csrc, mm.end())
    macro_lits = rust_literals(macro)
    want = ["{}", "OpenQasm", "(", ", ", ")", " {}", ", {}", "CQasm", ", ", ", ", "{{{}}}", "{", "}", ""]
    require(macro_lits == want, "literals of declare_controlled_qasm changed: %r" % (macro_lits,))
    for needle in ("stringify!($gate_name).to_lowercase()", "res.replace(&pattern, &bit_names[bit])",
                   "res.replace(pattern, &self.$arg.to_string())", "crate::expression::Expression::parse(&res[istart+1..iend-1])",
                   "Ok((val, \"\"))", "nr.to_string()", "res.replace_range(istart..iend, &repl)", "off = istart + 1;",
                   "res[off..].find('{')", "res[istart..].find('}')", "if bits.len() > 0", "bit_names[bits[0]]",
                   "for &bit in bits[1..].iter()", "if !args.is_empty()", "format!(\"{}\", self.$arg)"):
        require(needle in macro, "declare_controlled_qasm no longer contains `%s`" % needle)
    dm = re.search(r"macro_rules!\s+declare_controlled\s*\{", csrc)
    dmac, _ = block_after(csrc, dm.end() - 1)
    require("declare_controlled_qasm!(OpenQasm, $name, open_qasm $(, qasm=$open_qasm)* $(, arg=$arg)*);" in dmac
            and "declare_controlled_qasm!(OpenQasm, $name, open_qasm);" in dmac,
            "declare_controlled! no longer forwards open_qasm=/arg= to declare_controlled_qasm!")
    for m in re.finditer(r"declare_controlled!\(", csrc):
        depth, j = 1, m.end()
        in_str = None
        while depth:
            if in_str:
                if csrc.startswith(in_str, j):
                    j += len(in_str) - 1; in_str = None
                elif in_str == '"' and csrc[j] == "\\":
                    j += 1
            elif csrc.startswith('r#"', j):
                in_str = '"#'; j += 2
            elif csrc[j] == '"':
                in_str = '"'
            elif csrc[j] == "(":
                depth += 1
            elif csrc[j] == ")":
                depth -= 1
            j += 1
        text = csrc[m.end():j - 1]
        hm = re.match(r"\s*(\w+)\s*,\s*crate::gates::(\w+)", text)
        require(hm, "unrecognised declare_controlled! invocation: %r" % text[:80])
        name = hm.group(1)
        fields = macro_fields(text)
        args = [v.strip() for k, v in fields if k == "arg"]
        require(all(re.fullmatch(r"\w+", a) for a in args), "unrecognised arg= of %s: %r" % (name, args))
        oqs = [v for k, v in fields if k == "open_qasm"]
        require(len(oqs) <= 1, "%s has several open_qasm= arguments" % name)
        if oqs:
            tpl = const_string(oqs[0], "open_qasm= of " + name)
            kind = ".template /- %s -/ %s" % (tpl.replace("-/", "- /"), lean_chars(tpl))
        else:
            kind = ".plain %s" % lean_str(name.lower())
        entries[name] = (args, kind, False, 1 + (entries[hm.group(2)][3] if hm.group(2) in entries else nr_bits_literal(all_src, hm.group(2))))
    require(len(entries) >= 39, "only %d gates recognised" % len(entries))
    # Parameter display
    psrc = T.strip_rust_comments(T.read(repo, "src/gates/parameter.rs")).split("#[cfg(test)]")[0]
    pm = re.search(r"impl\s+::std::fmt::Display\s+for\s+Parameter", psrc)
    require(pm, "Display for Parameter not found")
    pbody = squash(block_after(psrc, pm.end())[0])
    for needle in ("Parameter::Direct(p)=>p.fmt(f)", 'Parameter::Reference(_,refname)=>write!(f,"{}",name)', "letp=unsafe{*ptr};p.fmt(f)"):
        require(needle in pbody, "Display for Parameter no longer contains `%s`" % needle)
    # trait defaults
    dsrc = T.strip_rust_comments(T.read(repo, "src/export/openqasm.rs")).split("#[cfg(test)]")[0]
    (cond_fmt, cond_holes), other, _ = straight_line_string(parse_stmts(fn_inner(dsrc, "conditional_open_qasm", "default conditional_open_qasm")),
                                                            "default conditional_open_qasm")
    require(other == [] and cond_holes == ["condition", "self.open_qasm(bit_names,bits)?"],
            "default conditional_open_qasm no longer combines the condition and the unconditional export: %r" % (cond_holes,))
    nbody = fn_body(dsrc, "open_qasm")
    require(nbody is not None and rust_literals(nbody) == ["OpenQasm"] and "NotImplemented" in nbody, "default open_qasm changed shape")
    # circuit
    circ = T.strip_rust_comments(T.read(repo, "src/circuit.rs")).split("#[cfg(test)]")[0]
    clits = circuit_lits(circ)
    body = ",\n".join("  { name := %s, params := %s, nbits := %d, kind := %s, condOverride := %s }" % (
        lean_str(k), lean_list([lean_str(p) for p in entries[k][0]]), entries[k][3], entries[k][1],
        "true" if entries[k][2] else "false") for k in sorted(entries))
    return ("/-! GENERATED by tools/translate.py (tools/gen/c11_openqasm.py) from /repo/src/gates/*.rs, src/export/openqasm.rs,\n"
            "src/circuit.rs — do not edit; regenerated on every check run.\n"
            "How each library gate writes itself in OpenQASM.  `format check pieces args`: `format!` with the literal `pieces`\n"
            "around its holes, hole `i` filled by `args[i]`, after `check_nr_bits` against `check` if present;\n"
            "`plain n`: first arm of `declare_controlled_qasm!` (name, parenthesised parameters, qubits); `template t`: second arm\n"
            "(`open_qasm=` text with `{i}` and `{arg}` holes).  Texts are `List Char` literals.  `params`: constructor parameter names in order; `nbits`: `nr_affected_bits()` (a literal, or 1 + that of the\ncontrolled gate type). -/\n"
            "namespace Q1t.Gen\n\n"
            "inductive OQArg where\n  | bit (k : Nat)\n  | param (field : String)\n  deriving Repr, DecidableEq\n\n"
            "inductive OQKind where\n  | format (check : Option Nat) (pieces : List (List Char)) (args : List OQArg)\n"
            "  | plain (lname : String)\n  | template (tpl : List Char)\n  deriving Repr, DecidableEq\n\n"
            "structure OQGate where\n  name : String\n  params : List String\n  nbits : Nat\n  kind : OQKind\n  condOverride : Bool\n  deriving Repr, DecidableEq\n\n"
            "def oqGates : List OQGate := [\n" + body + "\n]\n\n"
            "/-- string literals of `Kron`, `Composite`, `Loop` (`open_qasm`, then `conditional_open_qasm`) and of the default\n"
            "`conditional_open_qasm` -/\n"
            "def oqKronLits : List String × List String := (%s, %s)\n" % tuple(lean_list([lean_str(p) for p in structural["Kron"][i]]) for i in (0, 1)) +
            "def oqCompositeLits : List String × List String := (%s, %s)\n" % tuple(lean_list([lean_str(p) for p in structural["Composite"][i]]) for i in (0, 1)) +
            "def oqLoopLits : List String × List String := (%s, %s)\n" % tuple(lean_list([lean_str(p) for p in structural["Loop"][i]]) for i in (0, 1)) +
            "def oqCondFormat : String := %s\n\n" % lean_str(cond_fmt) +
            "/-- every string literal of `Circuit::open_qasm` in source order -/\n"
            "def oqCircuitLits : List String := [\n" + ",\n".join("  " + lean_str(l) for l in clits) + "\n]\n" + T.FOOTER)

"""C11 generator: how every library gate writes itself in OpenQASM (OpenQasmTemplates).

Re-extracted from /repo on every check:
  * every hand-written `impl crate::export::OpenQasm for <Gate>` of src/gates/*.rs: the `format!` string of
    `open_qasm` (split at its holes), what fills each hole, an optional leading `check_nr_bits`, whether
    `conditional_open_qasm` is overridden;
  * every `declare_controlled!` of src/gates/controlled.rs: the `open_qasm=` template and the `arg=` names, or
    the fact that the gate has no template (first arm of `declare_controlled_qasm!`: lower-cased struct name,
    parenthesised arguments, qubits);
  * the constructor parameter names of every gate (order of `new`);
  * the string literals of the structural gates (Kron, Composite, Loop), of the default
    `conditional_open_qasm` / `open_qasm` (src/export/openqasm.rs) and every string literal of
    `Circuit::open_qasm` (src/circuit.rs) in source order;
  * a fixed list of code shapes the model is written for (the macro body, `check_open_qasm_condition_bits`,
    the condition word loop, the absence of an `impl OpenQasm for C<G>`).
The generator raises ValueError on any shape it does not recognise (the check then reports the broken tie)."""
import os, re
import translate as T

NAME = "OpenQasmTemplates"


def lean_str(s):
    out = '"'
    for ch in s:
        if ch == "\\":
            out += "\\\\"
        elif ch == '"':
            out += '\\"'
        elif ch == "\n":
            out += "\\n"
        else:
            out += ch
    return out + '"'


def lean_chars(s):
    """a Lean `List Char` literal (String.toList of a long literal is very slow in the kernel)"""
    def ch(c):
        if c == "\\":
            return "'\\\\'"
        if c == "'":
            return "'\\''"
        if c == "\n":
            return "'\\n'"
        return "'%s'" % c
    return "[" + ", ".join(ch(c) for c in s) + "]"


def unescape(s):
    return s.replace('\\\\', '\0').replace('\\"', '"').replace('\\n', '\n').replace('\0', '\\')


LIT = r'r#"(.*?)"#|r"([^"]*)"|"((?:[^"\\]|\\.)*)"'


def literal_value(m):
    if m.group(1) is not None:
        return m.group(1)
    if m.group(2) is not None:
        return m.group(2)
    return unescape(m.group(3))


def rust_literals(code):
    return [literal_value(m) for m in re.finditer(LIT, code, flags=re.S)]


def block_after(src, start):
    """brace-balanced block starting at the first `{` at or after `start`; returns (text, end)."""
    i = src.index("{", start)
    depth, j = 0, i
    in_str = False
    while True:
        c = src[j]
        if in_str:
            if c == "\\":
                j += 1
            elif c == '"':
                in_str = False
        elif c == '"':
            in_str = True
        elif c == "'" and src[j + 2] == "'":
            j += 2
        elif c == "{":
            depth += 1
        elif c == "}":
            depth -= 1
            if depth == 0:
                return src[i:j + 1], j + 1
        j += 1


def fmt_pieces(fmt):
    """Rust format string -> list of literal pieces around its `{}` holes (n holes -> n+1 pieces)."""
    pieces, cur, i = [], "", 0
    while i < len(fmt):
        if fmt.startswith("{{", i):
            cur += "{"; i += 2
        elif fmt.startswith("}}", i):
            cur += "}"; i += 2
        elif fmt[i] == "{":
            j = fmt.index("}", i)
            if fmt[i + 1:j] != "":
                raise ValueError(NAME + ": format hole with a spec: %r" % fmt)
            pieces.append(cur); cur = ""; i = j + 1
        else:
            cur += fmt[i]; i += 1
    pieces.append(cur)
    return pieces


def split_args(s):
    out, depth, cur = [], 0, ""
    for ch in s:
        if ch in "([":
            depth += 1
        elif ch in ")]":
            depth -= 1
        if ch == "," and depth == 0:
            out.append(cur.strip()); cur = ""
        else:
            cur += ch
    if cur.strip():
        out.append(cur.strip())
    return out


def lean_list(xs):
    return "[" + ", ".join(xs) + "]"


def new_params(src, name):
    m = re.search(r"impl\s+%s\s*\{" % name, src)
    if not m:
        return None
    body, _ = block_after(src, m.start())
    nm = re.search(r"pub\s+fn\s+new\s*(?:<[^>]*>)?\s*\(([^)]*)\)", body)
    if not nm:
        return None
    return [a.split(":")[0].strip() for a in split_args(nm.group(1))]


def fn_body(block, fname):
    m = re.search(r"fn\s+%s\s*\(" % fname, block)
    if not m:
        return None
    body, _ = block_after(block, m.end())
    return body


def nr_bits_literal(all_src, ty):
    for src in all_src.values():
        m = re.search(r"impl\s+crate::gates::Gate\s+for\s+%s\s*\{" % ty, src)
        if m:
            body, _ = block_after(src, m.start())
            nb = re.search(r"fn\s+nr_affected_bits\s*\(&self\)\s*->\s*usize\s*\{\s*(\d+)\s*\}", body)
            if nb:
                return int(nb.group(1))
            if re.search(r"fn\s+nr_affected_bits\s*\(&self\)\s*->\s*usize\s*\{\s*self\.cgate\.nr_affected_bits\(\)\s*\}", body):
                sm = re.search(r"struct\s+%s\s*\{[^}]*cgate:\s*crate::gates::C<crate::gates::(\w+)>" % ty, src, flags=re.S)
                if sm:
                    return 1 + nr_bits_literal(all_src, sm.group(1))
    raise ValueError(NAME + ": nr_affected_bits of %s is not a literal" % ty)


def parse_handwritten(name, src, all_src):
    m = re.search(r"impl\s+crate::export::OpenQasm\s+for\s+%s\s*\{" % name, src)
    block, _ = block_after(src, m.start())
    override = "fn conditional_open_qasm" in block
    body = fn_body(block, "open_qasm")
    if body is None:
        raise ValueError(NAME + ": %s has an impl OpenQasm without open_qasm" % name)
    stmts = body.strip()[1:-1].strip()
    check = "none"
    cm = re.match(r"self\.check_nr_bits\(bits\.len\(\)\)\?;\s*", stmts)
    if cm:
        check = "(some %d)" % nr_bits_literal(all_src, name)
        stmts = stmts[cm.end():]
    lets = {}
    while True:
        lm = re.match(r"let\s+(\w+)\s*=\s*&bit_names\[bits\[(\d+)\]\];\s*", stmts)
        if not lm:
            break
        lets[lm.group(1)] = int(lm.group(2))
        stmts = stmts[lm.end():]
    fm = re.fullmatch(r'Ok\(format!\(\s*"((?:[^"\\]|\\.)*)"\s*,(.*)\)\)', stmts, flags=re.S)
    if not fm:
        raise ValueError(NAME + ": unrecognised open_qasm body of %s: %r" % (name, stmts[:200]))
    pieces = fmt_pieces(unescape(fm.group(1)))
    args = []
    for a in split_args(fm.group(2)):
        a = " ".join(a.split())
        bm = re.fullmatch(r"&?bit_names\[bits\[(\d+)\]\]", a)
        pm = re.fullmatch(r"self\.(\w+)", a)
        if bm:
            args.append(".bit %s" % bm.group(1))
        elif a in lets:
            args.append(".bit %d" % lets[a])
        elif pm:
            args.append(".param %s" % lean_str(pm.group(1)))
        else:
            raise ValueError(NAME + ": unrecognised format argument %r in %s" % (a, name))
    if len(args) + 1 != len(pieces):
        raise ValueError(NAME + ": %s: %d holes, %d arguments" % (name, len(pieces) - 1, len(args)))
    kind = ".format %s %s %s" % (check, lean_list([lean_chars(p) for p in pieces]), lean_list(args))
    return kind, override


def require(cond, what):
    if not cond:
        raise ValueError(NAME + ": " + what)


def squash(s):
    return "".join(s.split())


@T.generator(NAME)
def gen_OpenQasmTemplates(repo):
    gdir = os.path.join(repo, "src", "gates")
    all_src = {}
    for fn in sorted(os.listdir(gdir)):
        if fn.endswith(".rs"):
            all_src[fn] = T.strip_rust_comments(T.read(repo, "src/gates/" + fn)).split("#[cfg(test)]")[0]
    entries = {}     # name -> (params, kind, override)
    structural = {}
    for fn, src in all_src.items():
        for m in re.finditer(r"impl(?:<[^>]*>)?\s+crate::export::OpenQasm\s+for\s+(\w+)", src):
            name = m.group(1)
            if name in ("Kron", "Composite", "Loop"):
                block, _ = block_after(src, m.start())
                require("fn conditional_open_qasm" in block and "fn open_qasm" in block,
                        "%s no longer overrides both open_qasm and conditional_open_qasm" % name)
                structural[name] = (rust_literals(fn_body(block, "open_qasm")),
                                    rust_literals(fn_body(block, "conditional_open_qasm")),
                                    squash(fn_body(block, "open_qasm")), squash(fn_body(block, "conditional_open_qasm")))
                continue
            require(name != "C", "C<G> now implements OpenQasm")
            kind, override = parse_handwritten(name, src, all_src)
            params = new_params(src, name)
            require(params is not None, "no `new` found for %s" % name)
            entries[name] = (params, kind, override, nr_bits_literal(all_src, name))
    # structural shapes the model is written for
    require(structural.get("Kron", (None,))[:2] == (["{}; {}"], ["; "]), "Kron literals changed: %r" % (structural.get("Kron"),))
    k_un, k_co = structural["Kron"][2:]
    for needle in ("letn0=self.g0.nr_affected_bits();", "self.g0.open_qasm(bit_names,&bits[..n0])?", "self.g1.open_qasm(bit_names,&bits[n0..])?"):
        require(needle in k_un, "Kron::open_qasm no longer contains `%s`" % needle)
    for needle in ("self.g0.conditional_open_qasm(condition,bit_names,&bits[..n0])?", "self.g1.conditional_open_qasm(condition,bit_names,&bits[n0..])?"):
        require(needle in k_co, "Kron::conditional_open_qasm no longer contains `%s`" % needle)
    require(structural.get("Composite", (None,))[:2] == (["; {}"], ["; "]), "Composite literals changed: %r" % (structural.get("Composite"),))
    c_un, c_co = structural["Composite"][2:]
    for body, meth in ((c_un, "open_qasm(bit_names,&gate_bits)?"), (c_co, "conditional_open_qasm(condition,bit_names,&gate_bits)?")):
        for needle in ("letmutres=String::new();", "ifself.ops.len()>0", "self.ops[0].bits.iter().map(|&b|bits[b]).collect()",
                       "self.ops[0].gate." + meth, "foropinself.ops[1..].iter()", "op.bits.iter().map(|&b|bits[b]).collect()", "op.gate." + meth):
            require(needle in body, "Composite export no longer contains `%s`" % needle)
    require(structural.get("Loop", (None,))[:2] == ([";\n"], [";\n"]), "Loop literals changed: %r" % (structural.get("Loop"),))
    l_un, l_co = structural["Loop"][2:]
    for body, meth in ((l_un, "self.body.open_qasm(bit_names,bits)?"), (l_co, "self.body.conditional_open_qasm(condition,bit_names,bits)?")):
        for needle in ("ifself.nr_iterations==0{Ok(String::new())}", meth, "letmutres=qasm_body.clone();", "for_in1..self.nr_iterations", "res+=&qasm_body;"):
            require(needle in body, "Loop export no longer contains `%s`" % needle)
    # the macro
    csrc = all_src["controlled.rs"]
    require(not re.search(r"impl<G>\s+crate::export::OpenQasm\s+for\s+C<G>", csrc), "C<G> now implements OpenQasm")
    mm = re.search(r"macro_rules!\s+declare_controlled_qasm", csrc)
    require(mm, "declare_controlled_qasm not found")
    macro, _ = block_after(csrc, mm.end())
    macro_lits = rust_literals(macro)
    want = ["{}", "OpenQasm", "(", ", ", ")", " {}", ", {}", "CQasm", ", ", ", ", "{{{}}}", "{", "}", ""]
    require(macro_lits == want, "literals of declare_controlled_qasm changed: %r" % (macro_lits,))
    for needle in ("stringify!($gate_name).to_lowercase()", "res.replace(&pattern, &bit_names[bit])",
                   "res.replace(pattern, &self.$arg.to_string())", "crate::expression::Expression::parse(&res[istart+1..iend-1])",
                   "Ok((val, \"\"))", "nr.to_string()", "res.replace_range(istart..iend, &repl)", "off = istart + 1;",
                   "res[off..].find('{')", "res[istart..].find('}')", "if bits.len() > 0", "bit_names[bits[0]]",
                   "for &bit in bits[1..].iter()", "if !args.is_empty()", "format!(\"{}\", self.$arg)"):
        require(needle in macro, "declare_controlled_qasm no longer contains `%s`" % needle)
    dm = re.search(r"macro_rules!\s+declare_controlled\s*\{", csrc)
    dmac, _ = block_after(csrc, dm.end() - 1)
    require("declare_controlled_qasm!(OpenQasm, $name, open_qasm $(, qasm=$open_qasm)* $(, arg=$arg)*);" in dmac
            and "declare_controlled_qasm!(OpenQasm, $name, open_qasm);" in dmac,
            "declare_controlled! no longer forwards open_qasm=/arg= to declare_controlled_qasm!")
    for m in re.finditer(r"declare_controlled!\(", csrc):
        depth, j = 1, m.end()
        in_str = None
        while depth:
            if in_str:
                if csrc.startswith(in_str, j):
                    j += len(in_str) - 1; in_str = None
                elif in_str == '"' and csrc[j] == "\\":
                    j += 1
            elif csrc.startswith('r#"', j):
                in_str = '"#'; j += 2
            elif csrc[j] == '"':
                in_str = '"'
            elif csrc[j] == "(":
                depth += 1
            elif csrc[j] == ")":
                depth -= 1
            j += 1
        text = csrc[m.end():j - 1]
        hm = re.match(r"\s*(\w+)\s*,\s*crate::gates::(\w+)", text)
        require(hm, "unrecognised declare_controlled! invocation: %r" % text[:80])
        name = hm.group(1)
        args = re.findall(r"\barg\s*=\s*(\w+)", text)
        oq = re.search(r"\bopen_qasm\s*=\s*(%s)" % LIT, text, flags=re.S)
        if oq:
            tpl = literal_value(re.match(LIT, oq.group(1), flags=re.S))
            kind = ".template /- %s -/ %s" % (tpl.replace("-/", "- /"), lean_chars(tpl))
        else:
            kind = ".plain %s" % lean_str(name.lower())
        entries[name] = (args, kind, False, 1 + (entries[hm.group(2)][3] if hm.group(2) in entries else nr_bits_literal(all_src, hm.group(2))))
    require(len(entries) >= 39, "only %d gates recognised" % len(entries))
    # Parameter display
    psrc = T.strip_rust_comments(T.read(repo, "src/gates/parameter.rs")).split("#[cfg(test)]")[0]
    pm = re.search(r"impl\s+::std::fmt::Display\s+for\s+Parameter", psrc)
    require(pm, "Display for Parameter not found")
    pbody = squash(block_after(psrc, pm.end())[0])
    for needle in ("Parameter::Direct(p)=>p.fmt(f)", 'Parameter::Reference(_,refname)=>write!(f,"{}",name)', "letp=unsafe{*ptr};p.fmt(f)"):
        require(needle in pbody, "Display for Parameter no longer contains `%s`" % needle)
    # trait defaults
    dsrc = T.strip_rust_comments(T.read(repo, "src/export/openqasm.rs")).split("#[cfg(test)]")[0]
    dbody = fn_body(dsrc, "conditional_open_qasm")
    require(dbody is not None and "letuncond_qasm=self.open_qasm(bit_names,bits)?;" in squash(dbody), "default conditional_open_qasm changed shape")
    dl = rust_literals(dbody)
    require(dl == ["if ({}) {}"], "default conditional_open_qasm literals changed: %r" % dl)
    nbody = fn_body(dsrc, "open_qasm")
    require(nbody is not None and rust_literals(nbody) == ["OpenQasm"] and "NotImplemented" in nbody, "default open_qasm changed shape")
    # circuit
    circ = T.strip_rust_comments(T.read(repo, "src/circuit.rs")).split("#[cfg(test)]")[0]
    cm = re.search(r"pub\s+fn\s+open_qasm\s*\(&self\)", circ)
    require(cm, "Circuit::open_qasm not found")
    cbody, _ = block_after(circ, cm.end())
    clits = rust_literals(cbody)
    cs = squash(cbody)
    for needle in ("ifself.nr_qbits>0", "ifself.nr_cbits>0", "gate.open_qasm(&qbit_names,bits)?",
                   "ifcontrol.is_empty(){res+=&format!(\"{};\\n\",gate.open_qasm(&qbit_names,bits)?);}",
                   "self.check_open_qasm_condition_bits(control)?;",
                   "for(tshift,sshift)incontrol.iter().enumerate(){starget|=((target>>tshift)&0x01)<<sshift;}",
                   "gate.conditional_open_qasm(&condition,&qbit_names,bits)?",
                   "Basis::X=>{res+=&format!(\"{};\\n\",crate::gates::H::new().open_qasm(&qbit_names,&[qbit])?);}",
                   "Basis::Y=>{res+=&format!(\"{};\\n\",crate::gates::Sdg::new().open_qasm(&qbit_names,&[qbit])?);res+=&format!(\"{};\\n\",crate::gates::H::new().open_qasm(&qbit_names,&[qbit])?);}",
                   "qbit_names[qbit],cbit_names[cbit]",
                   "letnames=[String::from(\"q\")];res+=&format!(\"{};\\n\",crate::gates::H::new().open_qasm(&names,&[0])?);",
                   "ifcbits.len()==self.nr_cbits&&cbits.iter().enumerate().all(|(i,&b)|i==b)",
                   "for(qbit,&cbit)incbits.iter().enumerate()",
                   "CircuitOp::Peek(_,_,_)=>{returnErr(crate::error::Error::from(crate::error::ExportError::ExportPeekInvalid(\"OpenQasm\")));}",
                   "CircuitOp::PeekAll(_,_)=>{returnErr(crate::error::Error::from(crate::error::ExportError::ExportPeekInvalid(\"OpenQasm\")));}",
                   "ifqbits.len()==self.nr_qbits&&qbits.iter().enumerate().all(|(i,&b)|i==b)",
                   "qbits.iter().map(|&b|qbit_names[b].as_str()).collect::<Vec<&str>>().join(\",\")"):
        require(needle in cs, "Circuit::open_qasm no longer contains `%s`" % needle)
    km = re.search(r"fn\s+check_open_qasm_condition_bits", circ)
    require(km and "if!self.is_full_register(control){Err(crate::error::ExportError::IncompleteConditionRegister)}else{Ok(())}"
            in squash(block_after(circ, km.end())[0]), "check_open_qasm_condition_bits changed shape")
    fm = re.search(r"fn\s+is_full_register", circ)
    require(fm, "is_full_register not found")
    fb = squash(block_after(circ, fm.end())[0])
    for needle in ("letn=control.len();ifn!=self.nr_cbits{returnfalse;}", "scontrol.sort();", "ifscontrol[i]!=i{returnfalse;}"):
        require(needle in fb, "is_full_register no longer contains `%s`" % needle)
    body = ",\n".join("  { name := %s, params := %s, nbits := %d, kind := %s, condOverride := %s }" % (
        lean_str(k), lean_list([lean_str(p) for p in entries[k][0]]), entries[k][3], entries[k][1],
        "true" if entries[k][2] else "false") for k in sorted(entries))
    return ("/-! GENERATED by tools/translate.py (tools/gen/c11_openqasm.py) from /repo/src/gates/*.rs, src/export/openqasm.rs,\n"
            "src/circuit.rs — do not edit; regenerated on every check run.\n"
            "How each library gate writes itself in OpenQASM.  `format check pieces args`: `format!` with the literal `pieces`\n"
            "around its holes, hole `i` filled by `args[i]`, after `check_nr_bits` against `check` if present;\n"
            "`plain n`: first arm of `declare_controlled_qasm!` (name, parenthesised parameters, qubits); `template t`: second arm\n"
            "(`open_qasm=` text with `{i}` and `{arg}` holes).  Texts are `List Char` literals.  `params`: constructor parameter names in order; `nbits`: `nr_affected_bits()` (a literal, or 1 + that of the\ncontrolled gate type). -/\n"
            "namespace Q1t.Gen\n\n"
            "inductive OQArg where\n  | bit (k : Nat)\n  | param (field : String)\n  deriving Repr, DecidableEq\n\n"
            "inductive OQKind where\n  | format (check : Option Nat) (pieces : List (List Char)) (args : List OQArg)\n"
            "  | plain (lname : String)\n  | template (tpl : List Char)\n  deriving Repr, DecidableEq\n\n"
            "structure OQGate where\n  name : String\n  params : List String\n  nbits : Nat\n  kind : OQKind\n  condOverride : Bool\n  deriving Repr, DecidableEq\n\n"
            "def oqGates : List OQGate := [\n" + body + "\n]\n\n"
            "/-- string literals of `Kron`, `Composite`, `Loop` (`open_qasm`, then `conditional_open_qasm`) and of the default\n"
            "`conditional_open_qasm` -/\n"
            "def oqKronLits : List String × List String := (%s, %s)\n" % tuple(lean_list([lean_str(p) for p in structural["Kron"][i]]) for i in (0, 1)) +
            "def oqCompositeLits : List String × List String := (%s, %s)\n" % tuple(lean_list([lean_str(p) for p in structural["Composite"][i]]) for i in (0, 1)) +
            "def oqLoopLits : List String × List String := (%s, %s)\n" % tuple(lean_list([lean_str(p) for p in structural["Loop"][i]]) for i in (0, 1)) +
            "def oqCondFormat : String := %s\n\n" % lean_str(dl[0]) +
            "/-- every string literal of `Circuit::open_qasm` in source order -/\n"
            "def oqCircuitLits : List String := [\n" + ",\n".join("  " + lean_str(l) for l in clits) + "\n]\n" + T.FOOTER)

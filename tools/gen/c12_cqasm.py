"""C12 generator: how every library gate writes itself in c-QASM (CQasmTemplates).

Re-extracted from /repo on every check:
  * every hand-written `impl crate::export::CQasm for <Gate>` of src/gates/*.rs: the `format!` string of `c_qasm`
    (split at its holes), what fills each hole, an optional leading `check_nr_bits`, whether `conditional_c_qasm`
    is overridden;
  * every `declare_controlled!` of src/gates/controlled.rs: the `c_qasm=` template and the `arg=` names, or the
    fact that the gate has no template (first arm of `declare_controlled_qasm!`: lower-cased struct name);
  * the constructor parameter names of every gate (order of `new`);
  * the format strings of the structural gates (Kron, Composite, Loop), of the default `conditional_c_qasm`
    (src/export/cqasm.rs) and every string literal of `Circuit::c_qasm` (src/circuit.rs) in source order.
The generator raises ValueError on any shape it does not recognise (the check then reports the broken tie)."""
import os, re
import translate as T


def lean_str(s):
    out = '"'
    for ch in s:
        if ch == "\\":
            out += "\\\\"
        elif ch == '"':
            out += '\\"'
        elif ch == "\n":
            out += "\\n"
        else:
            out += ch
    return out + '"'


def unescape(s):
    """value of the inside of a (non-raw) Rust string literal"""
    out, i = [], 0
    simple = {"n": "\n", "t": "\t", "r": "\r", "0": "\0", "\\": "\\", '"': '"', "'": "'"}
    while i < len(s):
        c = s[i]
        if c != "\\":
            out.append(c); i += 1
            continue
        d = s[i + 1]
        if d in simple:
            out.append(simple[d]); i += 2
        elif d == "\n":                      # line continuation: the newline and the following white space vanish
            i += 2
            while i < len(s) and s[i] in " \t\n\r":
                i += 1
        elif d == "x":
            out.append(chr(int(s[i + 2:i + 4], 16))); i += 4
        elif d == "u" and s[i + 2] == "{":
            j = s.index("}", i)
            out.append(chr(int(s[i + 3:j].replace("_", ""), 16))); i = j + 1
        else:
            raise ValueError("CQasmTemplates: unknown escape in string literal %r" % s)
    return "".join(out)


LIT = r'r#"(.*?)"#|r"([^"]*)"|"((?:[^"\\]|\\.)*)"'


def literal_value(m):
    if m.group(1) is not None:
        return m.group(1)
    if m.group(2) is not None:
        return m.group(2)
    return unescape(m.group(3))


def rust_literals(code):
    return [literal_value(m) for m in re.finditer(LIT, code, flags=re.S)]


def lex_top(text):
    """(kind, text) items of a macro argument text: ("lit", value) for string literals (plain, raw), ("sym", char) else"""
    i = 0
    lit = re.compile(LIT, flags=re.S)
    while i < len(text):
        m = lit.match(text, i)
        if m and (m.group(3) is not None or i == 0 or not (text[i - 1].isalnum() or text[i - 1] == "_")):
            yield ("lit", literal_value(m), text[i:m.end()]); i = m.end()
        else:
            yield ("sym", text[i], text[i]); i += 1


def macro_fields(text):
    """`key=value` arguments (top level, string-aware) of a macro invocation, in order; values as source text"""
    parts, cur, depth = [], "", 0
    for kind, val, raw in lex_top(text):
        if kind == "sym" and val in "([{":
            depth += 1
        elif kind == "sym" and val in ")]}":
            depth -= 1
        if kind == "sym" and val == "," and depth == 0:
            parts.append(cur); cur = ""
        else:
            cur += raw
    parts.append(cur)
    out = []
    for p in parts:
        m = re.match(r"\s*(\w+)\s*=(?!=)(.*)$", p, flags=re.S)
        if m:
            out.append((m.group(1), m.group(2)))
    return out


def const_string(expr, what):
    """value of a constant string expression: a literal (plain with escapes and line continuations, raw) or
    `concat!(..)` of such expressions (integer and boolean literals, as `concat!` allows, included)"""
    e = expr.strip()
    m = re.match(LIT, e, flags=re.S)
    if m and m.end() == len(e):
        return literal_value(m)
    if re.match(r"concat!\s*[(\[{]", e) and e[-1] in ")]}":
        inner = e[e.index("!") + 1:].strip()[1:-1]
        parts, cur, depth = [], "", 0
        for kind, val, raw in lex_top(inner):
            if kind == "sym" and val in "([{":
                depth += 1
            elif kind == "sym" and val in ")]}":
                depth -= 1
            if kind == "sym" and val == "," and depth == 0:
                parts.append(cur); cur = ""
            else:
                cur += raw
        if cur.strip():
            parts.append(cur)
        return "".join(const_string(p, what) for p in parts)
    if re.fullmatch(r"\d+|true|false", e):
        return e
    raise ValueError("CQasmTemplates: %s is not a constant string this generator can evaluate: %r" % (what, e[:80]))


CHAR = r"'(\\.|[^'\\])'"


def text_content(code):
    """the literal text a piece of string-building code contributes: its string literals (format holes `{}` removed)
    and char literals, concatenated in source order.  `res += &format!("\n{}", q)`, `res.push('\n'); res.push_str(&q)`,
    `a + "\n" + &b` and `format!("{}\n{}", a, b)` all have the content "\n"."""
    out = ""
    for m in re.finditer("(?:%s)|(?:%s)" % (LIT, CHAR), code, flags=re.S):
        if m.group(4) is not None:
            out += unescape(m.group(4))
        else:
            v = literal_value(m)
            try:
                out += "".join(fmt_pieces(v))
            except ValueError:
                out += v
    return out


def literals_inlined(code, src, depth=2):
    """string literals of `code` in source order, where (a) a call `Self::helper(` of a PRIVATE fn of the same file
    contributes the literals of the helper's body at the place of the call (one or two levels), and (b) a match arm with an
    or-pattern `CircuitOp::A(..) | CircuitOp::B(..) => { .. }` counts once per alternative (as if the arms were written
    separately).  Extracting or inlining a helper and merging / splitting arms with identical bodies give the same list."""
    out = []
    arm = r"(CircuitOp::\w+\s*(?:\([^)]*\))?(?:\s*\|\s*CircuitOp::\w+\s*(?:\([^)]*\))?)+)\s*=>\s*\{"
    pat = re.compile("(?P<lit>%s)|Self::(?P<fn>\\w+)\\s*\\(|(?P<arm>%s)" % (LIT, arm), flags=re.S)
    i = 0
    while True:
        m = pat.search(code, i)
        if not m:
            break
        if m.group("lit") is not None:
            lm = re.match(LIT, m.group("lit"), flags=re.S)
            out.append(literal_value(lm))
            i = m.end()
        elif m.group("fn") is not None:
            name = m.group("fn")
            hm = re.search(r"(?<![\w])(pub(?:\([^)]*\))?\s+)?fn\s+%s\s*(?:<[^>]*>)?\s*\(" % name, src)
            if hm and not hm.group(1) and depth > 0:
                hbody, _ = block_after(src, hm.end())
                out += literals_inlined(hbody, src, depth - 1)
            i = m.end()
        else:
            k = m.group("arm").count("CircuitOp::")
            blk, end = block_after(code, m.end() - 1)
            out += literals_inlined(blk[1:-1], src, depth) * k
            i = end
    return out


def block_after(src, start):
    """brace-balanced block starting at the first `{` at or after `start`; returns (text, end)."""
    i = src.index("{", start)
    depth, j = 0, i
    in_str = False
    while True:
        c = src[j]
        if in_str:
            if c == "\\":
                j += 1
            elif c == '"':
                in_str = False
        elif c == '"':
            in_str = True
        elif c == "{":
            depth += 1
        elif c == "}":
            depth -= 1
            if depth == 0:
                return src[i:j + 1], j + 1
        j += 1


def fmt_pieces(fmt):
    """Rust format string -> list of literal pieces around its `{}` holes (n holes -> n+1 pieces)."""
    pieces, cur, i = [], "", 0
    while i < len(fmt):
        if fmt.startswith("{{", i):
            cur += "{"; i += 2
        elif fmt.startswith("}}", i):
            cur += "}"; i += 2
        elif fmt[i] == "{":
            j = fmt.index("}", i)
            if fmt[i + 1:j] != "":
                raise ValueError("CQasmTemplates: format hole with a spec: %r" % fmt)
            pieces.append(cur); cur = ""; i = j + 1
        else:
            cur += fmt[i]; i += 1
    pieces.append(cur)
    return pieces


def split_args(s):
    """split a Rust argument list at top-level commas"""
    out, depth, cur = [], 0, ""
    for ch in s:
        if ch in "([":
            depth += 1
        elif ch in ")]":
            depth -= 1
        if ch == "," and depth == 0:
            out.append(cur.strip()); cur = ""
        else:
            cur += ch
    if cur.strip():
        out.append(cur.strip())
    return out


def lean_list(xs):
    return "[" + ", ".join(xs) + "]"


def new_params(src, name):
    """parameter names of `impl <name> { pub fn new(...)` (in order), or None if there is no such fn"""
    m = re.search(r"impl\s+%s\s*\{" % name, src)
    if not m:
        return None
    body, _ = block_after(src, m.start())
    nm = re.search(r"pub\s+fn\s+new\s*(?:<[^>]*>)?\s*\(([^)]*)\)", body)
    if not nm:
        return None
    return [a.split(":")[0].strip() for a in split_args(nm.group(1))]


def fn_body(block, fname):
    m = re.search(r"fn\s+%s\s*\(" % fname, block)
    if not m:
        return None
    body, _ = block_after(block, m.end())
    return body


def nr_bits_literal(all_src, ty):
    for src in all_src.values():
        m = re.search(r"impl\s+crate::gates::Gate\s+for\s+%s\s*\{" % ty, src)
        if m:
            body, _ = block_after(src, m.start())
            nb = re.search(r"fn\s+nr_affected_bits\s*\(&self\)\s*->\s*usize\s*\{\s*(\d+)\s*\}", body)
            if nb:
                return int(nb.group(1))
    raise ValueError("CQasmTemplates: nr_affected_bits of %s is not a literal" % ty)


def parse_handwritten(name, src, all_src):
    m = re.search(r"impl\s+crate::export::CQasm\s+for\s+%s\s*\{" % name, src)
    block, _ = block_after(src, m.start())
    override = "fn conditional_c_qasm" in block
    body = fn_body(block, "c_qasm")
    if body is None:
        raise ValueError("CQasmTemplates: %s has an impl CQasm without c_qasm" % name)
    stmts = body.strip()[1:-1].strip()
    check = "none"
    cm = re.match(r"self\.cgate\.check_nr_bits\(bits\.len\(\)\)\?;\s*", stmts)
    if cm:
        sm = re.search(r"struct\s+%s\s*\{[^}]*cgate:\s*crate::gates::C<crate::gates::(\w+)>" % name, src, flags=re.S)
        if not sm:
            raise ValueError("CQasmTemplates: cannot find the controlled type of %s" % name)
        check = "(some %d)" % (1 + nr_bits_literal(all_src, sm.group(1)))
        stmts = stmts[cm.end():]
    lets = {}
    while True:
        lm = re.match(r"let\s+(\w+)\s*=\s*&bit_names\[bits\[(\d+)\]\];\s*", stmts)
        if not lm:
            break
        lets[lm.group(1)] = int(lm.group(2))
        stmts = stmts[lm.end():]
    fm = re.fullmatch(r'Ok\(format!\(\s*"((?:[^"\\]|\\.)*)"\s*,(.*)\)\)', stmts, flags=re.S)
    if not fm:
        raise ValueError("CQasmTemplates: unrecognised c_qasm body of %s: %r" % (name, stmts[:200]))
    pieces = fmt_pieces(unescape(fm.group(1)))
    args = []
    for a in split_args(fm.group(2)):
        a = " ".join(a.split())
        bm = re.fullmatch(r"&?bit_names\[bits\[(\d+)\]\]", a)
        pm = re.fullmatch(r"self\.(\w+)", a)
        ppm = re.fullmatch(r"self\.(\w+)\.value\(\) \+ ::std::f64::consts::PI", a)
        if bm:
            args.append(".bit %s" % bm.group(1))
        elif a in lets:
            args.append(".bit %d" % lets[a])
        elif pm:
            args.append(".param %s" % lean_str(pm.group(1)))
        elif ppm:
            args.append(".paramPlusPi %s" % lean_str(ppm.group(1)))
        else:
            raise ValueError("CQasmTemplates: unrecognised format argument %r in %s" % (a, name))
    if len(args) + 1 != len(pieces):
        raise ValueError("CQasmTemplates: %s: %d holes, %d arguments" % (name, len(pieces) - 1, len(args)))
    kind = ".format %s %s %s" % (check, lean_list([lean_str(p) for p in pieces]), lean_list(args))
    return kind, override


@T.generator("CQasmTemplates")
def gen_CQasmTemplates(repo):
    gdir = os.path.join(repo, "src", "gates")
    all_src = {}
    for fn in sorted(os.listdir(gdir)):
        if fn.endswith(".rs"):
            all_src[fn] = T.strip_rust_comments(T.read(repo, "src/gates/" + fn)).split("#[cfg(test)]")[0]
    entries = {}     # name -> (params, kind, override)
    structural = {}
    for fn, src in all_src.items():
        for m in re.finditer(r"impl(?:<[^>]*>)?\s+crate::export::CQasm\s+for\s+(\w+)", src):
            name = m.group(1)
            if name in ("Kron", "Composite", "Loop"):
                block, _ = block_after(src, m.start())
                if "fn conditional_c_qasm" not in block or "fn c_qasm" not in block:
                    raise ValueError("CQasmTemplates: %s no longer overrides both c_qasm and conditional_c_qasm" % name)
                cb, kb = fn_body(block, "c_qasm"), fn_body(block, "conditional_c_qasm")
                # c_qasm of Kron / Loop: ONE format string (consumed: cqKronPieces / cqLoopPieces); everything else is
                # string building whose only literal text is one newline (`text_content`)
                structural[name] = (text_content(cb) if name == "Composite" else rust_literals(cb), text_content(kb))
                continue
            kind, override = parse_handwritten(name, src, all_src)
            params = new_params(src, name)
            if params is None:
                raise ValueError("CQasmTemplates: no `new` found for %s" % name)
            entries[name] = (params, kind, override)
    # structural shapes the model is written for
    if structural.get("Kron") != (["{{ {} | {} }}"], "\n"):
        raise ValueError("CQasmTemplates: Kron literals changed: %r" % (structural.get("Kron"),))
    if structural.get("Composite") != ("\n", "\n"):
        raise ValueError("CQasmTemplates: Composite literals changed: %r" % (structural.get("Composite"),))
    if structural.get("Loop") != ([".{}({})\n{}\n.end"], "\n"):
        raise ValueError("CQasmTemplates: Loop literals changed: %r" % (structural.get("Loop"),))
    # C<G> must not implement CQasm (the model answers NotImplemented through the trait default)
    csrc = all_src["controlled.rs"]
    if re.search(r"impl<G>\s+crate::export::CQasm\s+for\s+C<G>", csrc):
        raise ValueError("CQasmTemplates: C<G> now implements CQasm")
    # the macro
    mm = re.search(r"macro_rules!\s+declare_controlled_qasm", csrc)
    if not mm:
        raise ValueError("CQasmTemplates: declare_controlled_qasm not found")
    macro, _ = block_after(csrc, mm.end())
    macro_lits = rust_literals(macro)
    want = ["{}", "OpenQasm", "(", ", ", ")", " {}", ", {}", "CQasm", ", ", ", ", "{{{}}}", "{", "}", ""]
    if macro_lits != want:
        raise ValueError("CQasmTemplates: literals of declare_controlled_qasm changed: %r" % (macro_lits,))
    for needle in ("stringify!($gate_name).to_lowercase()", "res.replace(&pattern, &bit_names[bit])",
                   "res.replace(pattern, &self.$arg.to_string())", "crate::expression::Expression::parse(&res[istart+1..iend-1])",
                   "Ok((val, \"\"))", "nr.to_string()", "res.replace_range(istart..iend, &repl)", "off = istart + 1;",
                   "res[off..].find('{')", "res[istart..].find('}')"):
        if needle not in macro:
            raise ValueError("CQasmTemplates: declare_controlled_qasm no longer contains `%s`" % needle)
    dm = re.search(r"macro_rules!\s+declare_controlled\s*\{", csrc)
    dmac, _ = block_after(csrc, dm.end() - 1)
    if "declare_controlled_qasm!(CQasm, $name, c_qasm $(, qasm=$c_qasm)* $(, arg=$arg)*);" not in dmac:
        raise ValueError("CQasmTemplates: declare_controlled! no longer forwards c_qasm=/arg= to declare_controlled_qasm!")
    for m in re.finditer(r"declare_controlled!\(", csrc):
        # argument text up to the matching `);`
        depth, j = 1, m.end()
        in_str = None
        while depth:
            if in_str:
                if csrc.startswith(in_str, j):
                    j += len(in_str) - 1; in_str = None
                elif in_str == '"' and csrc[j] == "\\":
                    j += 1
            elif csrc.startswith('r#"', j):
                in_str = '"#'; j += 2
            elif csrc[j] == '"':
                in_str = '"'
            elif csrc[j] == "(":
                depth += 1
            elif csrc[j] == ")":
                depth -= 1
            j += 1
        text = csrc[m.end():j - 1]
        hm = re.match(r"\s*(\w+)\s*,\s*crate::gates::(\w+)", text)
        if not hm:
            raise ValueError("CQasmTemplates: unrecognised declare_controlled! invocation: %r" % text[:80])
        name = hm.group(1)
        fields = macro_fields(text)
        args = []
        for key, v in fields:
            if key == "arg":
                if not re.fullmatch(r"\s*\w+\s*", v):
                    raise ValueError("CQasmTemplates: arg= of %s is not an identifier: %r" % (name, v[:40]))
                args.append(v.strip())
        cqs = [v for key, v in fields if key == "c_qasm"]
        if len(cqs) > 1:
            raise ValueError("CQasmTemplates: %s has more than one c_qasm=" % name)
        if cqs:
            # a constant string expression (literal with escapes / continuations, raw string, concat!); RAISES otherwise
            kind = ".template %s" % lean_str(const_string(cqs[0], "c_qasm= of " + name))
        else:
            if re.search(r"\bc_qasm\b", "".join(raw for kind_, _, raw in lex_top(text) if kind_ == "sym")):
                raise ValueError("CQasmTemplates: %s mentions c_qasm in a form this generator does not read" % name)
            kind = ".plain %s" % lean_str(name.lower())
        entries[name] = (args, kind, False)
    if len(entries) < 35:
        raise ValueError("CQasmTemplates: only %d gates recognised" % len(entries))
    # default conditional
    dsrc = T.strip_rust_comments(T.read(repo, "src/export/cqasm.rs")).split("#[cfg(test)]")[0]
    dbody = fn_body(dsrc, "conditional_c_qasm")
    dflat = " ".join((dbody or "").split())
    two_parts = ("parts.len() != 2" in dflat or "parts.len() == 2" in dflat or
                 re.search(r"match \(parts\.next\(\), parts\.next\(\)\) \{ \(Some\(\w+\), Some\(\w+\)\) =>", dflat) or
                 re.search(r"if let \(Some\(\w+\), Some\(\w+\)\) = \(parts\.next\(\), parts\.next\(\)\)", dflat))
    if dbody is None or 'unc_qasm.splitn(2, " ")' not in dbody or not two_parts:
        raise ValueError("CQasmTemplates: default conditional_c_qasm changed shape")
    dl = rust_literals(dbody)
    if dl != [" ", "c-{} {}, {}"]:
        raise ValueError("CQasmTemplates: default conditional_c_qasm literals changed: %r" % dl)
    nbody = fn_body(dsrc, "c_qasm")
    if nbody is None or rust_literals(nbody) != ["c-Qasm"] or "NotImplemented" not in nbody:
        raise ValueError("CQasmTemplates: default c_qasm changed shape")
    # circuit
    circ = T.strip_rust_comments(T.read(repo, "src/circuit.rs")).split("#[cfg(test)]")[0]
    cm = re.search(r"pub\s+fn\s+c_qasm\s*\(&self\)", circ)
    if not cm:
        raise ValueError("CQasmTemplates: Circuit::c_qasm not found")
    cbody, _ = block_after(circ, cm.end())
    clits = literals_inlined(cbody, circ)
    body = ",\n".join("  { name := %s, params := %s, kind := %s, condOverride := %s }" % (
        lean_str(k), lean_list([lean_str(p) for p in entries[k][0]]), entries[k][1],
        "true" if entries[k][2] else "false") for k in sorted(entries))
    return ("/-! GENERATED by tools/translate.py (tools/gen/c12_cqasm.py) from /repo/src/gates/*.rs, src/export/cqasm.rs,\n"
            "src/circuit.rs — do not edit; regenerated on every check run.\n"
            "How each library gate writes itself in c-QASM.  `format check pieces args`: `format!` with the literal `pieces`\n"
            "around its holes, hole `i` filled by `args[i]`, after `check_nr_bits` against `check` if present;\n"
            "`plain n`: first arm of `declare_controlled_qasm!` (name, qubits, parameters); `template t`: second arm\n"
            "(`c_qasm=` text with `{i}`, `{arg}` and `{expression}` holes).  `params`: constructor parameter names in order. -/\n"
            "namespace Q1t.Gen\n\n"
            "inductive CQArg where\n  | bit (k : Nat)\n  | param (field : String)\n  | paramPlusPi (field : String)\n  deriving Repr, DecidableEq\n\n"
            "inductive CQKind where\n  | format (check : Option Nat) (pieces : List String) (args : List CQArg)\n"
            "  | plain (lname : String)\n  | template (tpl : String)\n  deriving Repr, DecidableEq\n\n"
            "structure CQGate where\n  name : String\n  params : List String\n  kind : CQKind\n  condOverride : Bool\n  deriving Repr, DecidableEq\n\n"
            "def cqGates : List CQGate := [\n" + body + "\n]\n\n"
            "/-- pieces of the `format!` strings of `Kron::c_qasm`, `Loop::c_qasm`, and of the default `conditional_c_qasm` -/\n"
            "def cqKronPieces : List String := %s\n" % lean_list([lean_str(p) for p in fmt_pieces(structural["Kron"][0][0])]) +
            "def cqLoopPieces : List String := %s\n" % lean_list([lean_str(p) for p in fmt_pieces(structural["Loop"][0][0])]) +
            "def cqCondPieces : List String := %s\n" % lean_list([lean_str(p) for p in fmt_pieces(dl[1])]) +
            "def cqCondSplit : String := %s\n\n" % lean_str(dl[0]) +
            "/-- every string literal of `Circuit::c_qasm` in source order -/\n"
            "def cqCircuitLits : List String := [\n" + ",\n".join("  " + lean_str(l) for l in clits) + "\n]\n" + T.FOOTER)

#!/usr/bin/env python3
"""Entry point of every check registered in MANIFEST.json:  python3 tools/check.py <ID> [--tier T] [--replay P]"""
import argparse, importlib, os, sys
sys.path.insert(0, os.path.dirname(os.path.abspath(__file__)))
import vlib


def main():
    ap = argparse.ArgumentParser()
    ap.add_argument("pid")
    ap.add_argument("--tier", default=os.environ.get("VERIF_TIER", "quick"), choices=["quick", "thorough"])
    ap.add_argument("--replay", default=None)
    a = ap.parse_args()
    seed = int(os.environ.get("VERIF_SEED", "1") or 1)
    ctx = vlib.Ctx(a.pid.upper(), a.tier, seed)
    os.environ["VERIF_TIER"] = a.tier
    mod = importlib.import_module("props." + a.pid.lower())
    # a shared lock on the repository: tools/seeded.py takes it exclusively while a seeded change is applied to
    # /repo, so that no other check ever sees a tree that is being mutated for a test
    if not os.environ.get("VERIF_REPO_LOCK_HELD"):
        import fcntl
        os.makedirs(vlib.CACHE, exist_ok=True)
        _rl = open(os.path.join(vlib.CACHE, "repo.lock"), "w")
        fcntl.flock(_rl, fcntl.LOCK_SH)
    if a.replay:
        sys.exit(mod.replay(ctx, a.replay) if hasattr(mod, "replay") else vlib_replay_default(ctx, mod, a.replay))
    try:
        mod.run(ctx)
    except Exception as e:  # machinery failure: never silent
        import traceback
        traceback.print_exc()
        ctx.oblige("check machinery ran to completion", False, repr(e))
    cmd = "cd /verif && python3 tools/check.py %s --tier %s   (lake build %s; #print axioms audit; harness+driver diff)" % (
        ctx.pid, ctx.tier, getattr(mod, "PROPS_MODULE", "Q1t.Props." + ctx.pid))
    sys.exit(vlib.finish(ctx, cmd))


def vlib_replay_default(ctx, mod, path):
    """Default replay: re-run the single recorded input through implementation and model/spec."""
    import json
    rp = json.load(open(path))
    print(json.dumps(rp, indent=1))
    if hasattr(mod, "replay_input") and rp.get("input"):
        return mod.replay_input(ctx, rp)
    print("replay: re-running the whole check")
    mod.run(ctx)
    return vlib.finish(ctx, "replay")


if __name__ == "__main__":
    main()

#!/usr/bin/env bash
# MANIFEST.setup_cmd: build the framework offline from files on disk. Idempotent.
set -u
cd "$(dirname "$0")/.."
export CARGO_NET_OFFLINE=true
mkdir -p .cache evidence replays
python3 tools/translate.py /repo || echo "setup: translate reported a problem (checks will report it)"
ids=$(python3 -c "import json;print(' '.join(c['property_id'] for c in json.load(open('MANIFEST.json'))['checks']))")
targets=""; bins=""
for id in $ids; do
  lid=$(echo "$id" | tr 'A-Z' 'a-z')
  [ -f "lean/Q1t/Props/$id.lean" ] && targets="$targets Q1t.Props.$id"
  grep -q "name = \"drv_$lid\"" lean/lakefile.toml && targets="$targets drv_$lid"
  [ -f "harness/src/bin/$lid.rs" ] && bins="$bins --bin $lid"
done
if [ -n "$targets" ]; then
  (cd lean && lake build $targets) || echo "setup: lake build reported errors (the affected checks will report them)"
  (cd harness && cargo build $bins) || echo "setup: cargo build reported errors (the affected checks will report them)"
fi
exit 0

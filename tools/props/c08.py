"""C08 — classical register writes are confined; histogram views agree."""
import vlib

PROPS_MODULE = "Q1t.Props.C08"

# class tags printed by `drv_c08 spec` for genuine defects of the pinned code; the id of the matching
# entry of known_findings.json is the class tag itself
DEFECT_CLASSES = {
    "D14-measure-all-repeated-or": "D14-measure-all-repeated-or",
    "D14-peek-all-repeated-or": "D14-peek-all-repeated-or",
    "D9-zero-shots-panic": "D9-zero-shots-panic",
}


def canon(line):
    return " ".join(line.split())


def nontrivial(req, ans):
    k = req.split(" ", 1)[0]
    if k == "circ":
        # at least one register write happened and the run completed
        return ans.startswith("ok") and any(t in req for t in ("| m ", "| ma ", "| p ", "| pa "))
    if k == "views":
        return ans.count(":") >= 2
    return ans.startswith("ok")


SPEC = {
    "tables": [],
    "props_module": PROPS_MODULE,
    "required": ["write_frame", "write_value", "write_panics_iff", "later_write_wins",
                 "reverse_bits_bit", "reverse_bits_panics", "shuffle_bits_bit", "shuffle_bits_panics_iff",
                 "measure_all_bits_partial", "measure_all_bits_stabilizer", "measure_all_vector_or",
                 "measure_all_repeated_targets_differ", "write_confinement", "gates_and_resets_frame",
                 "unwritten_zero", "register_within_width", "model_refines_reference_partial",
                 "histogram_counts", "histogram_vec_spec", "string_key_bits", "string_key_injective", "views_agree"],
    "drivers": ["drv_c08"],
    "harness_bin": "c08",
    "canon": canon,
    "spec_check": vlib.spec_via_driver("drv_c08"),
    "classify": lambda fl: DEFECT_CLASSES.get(fl.get("class")),
    "nontrivial": nontrivial,
    "rule": "q1tsim::verif::reverse_bits on 13 words x every width 0..66; shuffle_bits on all lists over {0..3} up to length 3 x all "
            "3-bit words plus random lists (permutations of 0..63, repeats, positions >= 64, lengths up to 69); get_ranges on random "
            "lists; real Circuits (1-5 qubits, quick / 1-6 thorough; register widths 0..70; 0-5 shots) of X/Y/Z/S/CX/Swap/CCX gates, "
            "measure, measure_all, peek, peek_all (permuted, repeated, mis-sized bit lists, cbit up to 63 and >= 64), reset, reset_all, "
            "barrier on computational basis states, executed with Circuit::execute_with on QuStateRepr::vector and ::stabilizer; "
            "compared: the register after every operation (trace hook), cstate(), histogram() sorted, histogram_vec() (width <= 12), "
            "histogram_string() sorted; plus the three views on registers produced by H+measure runs (shots differ). "
            "HISTORIES on one object created through the C interface (300 quick / 1500 thorough + the fixed x(0); measure(0,2); measure(1,0) on both "
            "backends): execute, then a mix of reexecute (rewrites the register in place; X gates make its words differ from the run before) and "
            "execute with the same or another shot count; after EVERY run histogram(), histogram_vec(), histogram_string() and the C interface's "
            "circuit_histogram are queried in a generated ORDER, the string views now and then twice (so the string view has been asked for "
            "before a reexecute and again after it): two `views` requests per run (string segment from histogram_string() / from "
            "circuit_histogram) against the N words the register holds after THAT run, plus `nwords`. "
            "Non-trivial = completed circuit with at least one register write, view request with >= 2 keys overall, or helper call "
            "that returned; distinct = distinct request line.",
    "exhaustive": False,
}


def run(ctx):
    vlib.standard_flow(ctx, SPEC)
    ctx.assumptions += [
        "the harness is built with overflow checks on (cargo dev profile): a u64 shift by >= 64 panics; in a release build it wraps "
        "the shift amount instead (the model's `none` outcome then stands for a silently wrong word)",
        "circuit-level correspondence uses computational basis states only (deterministic outcomes); what a measurement outcome is "
        "on a general state is C01/C02/C03",
        "measure_all_bits_partial / peek_all_bits_stabilizer_partial / model_refines_reference_partial exclude repeated measure-all/"
        "peek-all targets (cbits.Nodup): the vector backend and the stabilizer peek_all OR repeated targets (D14), witnessed by "
        "measure_all_repeated_targets_differ",
        "string keys: the width statement needs nr_cbits >= 1 (for 0 classical bits Rust formats the key as \"0\")",
        "hash-map iteration order is canonicalised by sorting (histogram, histogram_string)",
    ]

"""C04 — a gate on chosen qubits acts as its matrix embedded on those qubits."""
import vlib

PROPS_MODULE = "Q1t.Props.C04"

SPEC = {
    "tables": [],
    "props_module": PROPS_MODULE,
    "required": ["bit_permutation_spec", "lead_route_prim", "default_route", "lead_route_term", "apply_eq_matrix",
                 "composite_acts_as_sequence", "embed_full_register",
                 "apply_gate_slice_eq_embed", "apply_gate_mat_slice_eq_embed", "mat_route_columnwise",
                 "place_step_eq_embed", "apply_gate_eq_embed", "conditional_eq_unconditional_on_selected",
                 "composite_matrix_eq_product", "loop_matrix_eq_pow", "embed_preserves_unitarity",
                 "term_documented_unitary", "complex_is_model",
                 "apply_gate_slice_eq_embed_complex"],
    "drivers": ["drv_c04"],
    "harness_bin": "c04",
    "eq": vlib.hexfloat_eq(1e-12),
    "spec_check": vlib.spec_via_driver("drv_c04"),
    "nontrivial": lambda r, a: a.startswith("ok") and not r.startswith("matrix"),
    "rule": "every registry gate (44 kinds, generated parameters) and random nested combinators (C, Kron, Composite, Loop; depth<=3) "
            "x every ordered tuple of distinct qubits of an n-qubit register for n<=4 (sampled tuples up to n=6 thorough) "
            "x inputs (every basis vector, 2-3 random unit vectors, a random 3-column matrix, the identity matrix) "
            "x every route of the real code: Gate::apply, apply_mat, apply_slice, apply_mat_slice on states of 2^k*t rows (t=1,2,4), "
            "gates::apply_gate_slice, gates::apply_gate_mat_slice, VectorState::apply_gate and apply_conditional_gate "
            "(all-true and mixed masks on a state split into several ranges) read back through verif_snapshot, "
            "plus 4- and 5-qubit terms (Kron, C, Composite, Loop) on n<=5 (n<=6 thorough) with sampled operand orders (all orders for n<=5 thorough), "
            "always including tuples whose endpoints look consecutive while the interior is out of order (e.g. 1 3 2 4); "
            "plus a live-parameter stream: every parametrised gate that can hold a reference (RX RY RZ U1 U2 U3 CRX CRY CRZ CU1 CCRX CCRY CCRZ, C<U3>, C<C<U2>>, C<U1>, "
            "Kron/Composite/Loop/nested composites containing them, random terms) built with sampled (all, thorough) direct/Rc<RefCell>/FFI-pointer patterns "
            "while the cells hold decoys, every route called once, cells overwritten, then every route again on the same object "
            "vs model and embed(matrix) at the NEW values; "
            "plus VectorState states split into 65/100/129/200 ranges (63..257 thorough; n=1..3) through apply_gate (vsapplym), apply_unary_gate_all (vsunarym) and apply_conditional_gate; "
            "plus Loop terms with 17/20/33/64 iterations (15..100 thorough) alone, under C, inside Composite, Kron and an outer Loop on every route; "
            "plus every matrix route (apply_mat, apply_mat_slice, apply_gate_mat_slice) on matrices stored column-major, transposed-owned, reversed-axes, "
            "strided rows/columns, negative stride (9 layouts, 2-4 columns) for 1-4-qubit primitives/C/Kron/Composite/Loop in every operand order for n<=3 (sampled n=4); "
            "plus every parametrised gate at special angles (k*pi/2 for |k|<=16, 2pi..100pi literals, +-0, 1e-8..5e-324, 2*pi*k +- 1e-8 / 1 ulp), plain and inside "
            "C/CC/Kron/Composite/Loop (Loops of 10^3 iterations for tiny angles; 10^5 thorough) on every route with superposed states; "
            "gates::bit_permutation for every tuple (n<=5 quick, n<=6 thorough); plus a malformed stream "
            "(row counts that are not a multiple of 2^k, wrong arity, repeated and out-of-range qubits, wrong state size; panics caught). "
            "(A) implementation vs Lean model route to 1e-12; (B) implementation vs embed(n, bits, matrix())*v to 1e-9, "
            "bit_permutation vs the gather-index characterisation, conditional application per shot. "
            "Non-trivial = an application request that returned; distinct = distinct request line.",
}


def run(ctx):
    vlib.standard_flow(ctx, SPEC)
    ctx.assumptions += [
        "IEEE-754 rounding and libm sin/cos are outside the model (agreement checked to 1e-12 / 1e-9)",
        "ndarray slicing, assignment and broadcasting behave as list operations (modelled as such; shape mismatches = panic)",
        "(B) uses the model's matrix(), which the same run compares with the implementation's matrix() for every term used",
    ]

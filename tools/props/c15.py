"""C15 — composite descriptions build exactly the described gate sequence."""
import os
import vlib

PROPS_MODULE = "Q1t.Props.C15"

_hexeq = vlib.hexfloat_eq(1e-9)


def _ops_eq(oa, ob):
    """Sub-gate lists: names and qubit lists (in order) exactly; a parameter is shown by the implementation as the 4 decimals of
    the gate's description and by the model as a bit pattern."""
    ta, tb = oa.split(), ob.split()
    if len(ta) != len(tb) or ta[:2] != tb[:2]:
        return False
    for x, y in zip(ta[2:], tb[2:]):
        lx, _, bx = x.partition("@")
        ly, _, by = y.partition("@")
        if bx != by:
            return False
        nx, _, px = lx.partition("(")
        ny, _, py = ly.partition("(")
        if nx != ny:
            return False
        px = [t for t in px.rstrip(")").split(",") if t]
        py = [t for t in py.rstrip(")").split(",") if t]
        if len(px) != len(py):
            return False
        for d, h in zip(px, py):
            try:
                v, w = float(d), vlib.hex_to_float(h)
            except ValueError:
                return False
            if v != v or w != w:
                if not (v != v and w != w):
                    return False
            elif v in (float("inf"), float("-inf")) or w in (float("inf"), float("-inf")):
                if v != w:
                    return False
            elif abs(v - w) > 5.0e-5 + 1e-9 + 1e-12 * abs(w):
                return False
    return True


def eq(req, a, b):
    """(A): error constructor and payload, width and name exactly; the sub-gate list of the hook (names, qubit order exactly,
    parameters to the 4 decimals a description shows); matrix entries as doubles within 1e-9 (NaN = NaN).
    Where the gate model has no matrix (a sub-gate placed on a repeated qubit: `mat panic` on the model side) the matrix
    observation is not compared (the placement is outside the model's domain; from_string itself does not look at it).
    A model panic carries its site, the implementation's does not."""
    if a == b:
        return True
    if a.startswith("panic") and b.startswith("panic"):
        return True
    if a.startswith("act ") and b.startswith("act "):
        return _hexeq(req, a, b)      # apply / apply_slice / apply_mat results, amplitude by amplitude to 1e-9
    if not (a.startswith("ok ") and b.startswith("ok ")):
        return False
    sa, sb = a.split(" | "), b.split(" | ")
    if len(sa) != 3 or len(sb) != 3 or sa[0] != sb[0]:
        return False
    if not _ops_eq(sa[1], sb[1]):
        return False
    ma, mb = sa[2][4:], sb[2][4:]
    if mb == "panic":
        return True
    return _hexeq(req, ma, mb)


KNOWN_CLASSES = {
    "arg-int-literal-overflow": "C15-arg-int-literal-overflow",
}

_base_spec_check = vlib.spec_via_driver("drv_c15")


def spec_check(ctx, reqs, impl):
    """(B).  The second example in from_string's doc comment ("...; X1") is rejected with NoBits("X1"): digits glued to a
    name are part of the name (names such as U1, U2, U3 need that).  The property asks for exactly this error for a part
    without qubits, so this is a typo in the documentation, not a violation: it is recorded in the evidence, not reported."""
    fails = _base_spec_check(ctx, reqs, impl)
    doc = [f for f in fails if f.get("class") == "doc-example-rejected"]
    if doc:
        ctx.coverage["documentation_examples_rejected_by_the_code (informational, consistent with the property)"] = [f["why"][:120] for f in doc]
    return [f for f in fails if f.get("class") != "doc-example-rejected"]

SPEC = {
    "tables": ["FromString"],
    "props_module": PROPS_MODULE,
    "required": ["dispatch_table_eq", "dispatch_keys_distinct", "patterns_as_modelled", "tables_ok", "from_string_total", "from_string_never_panics",
                 "from_string_render_partial", "from_string_render_ast_partial", "from_string_acts_as_product",
                 "from_string_errors_parse_first", "from_string_error_no_name", "from_string_error_no_qubits",
                 "from_string_error_trailing_text", "from_string_error_invalid_index", "from_string_error_unclosed_list",
                 "from_string_error_argument", "from_string_error_index_overflow", "from_string_error_unknown_name",
                 "from_string_error_nr_params", "from_string_error_nr_qubits",
                 "doc_example_rejected", "arg_int_literal_overflow_rejected", "recorded_behaviour"],
    "drivers": ["drv_c15"],
    "harness_bin": "c15",
    "eq": eq,
    "spec_check": spec_check,
    "classify": lambda fl: KNOWN_CLASSES.get(fl.get("class")),
    "nontrivial": lambda r, a: r[:2] in ("g ", "m ", "k ", "s ", "a "),
    "rule": "the two examples of the documentation; ~90 fixed strings (test-suite strings, edge cases: empty parts, glued digits, Unicode "
            "digits/blanks, usize::MAX and beyond, repeated qubits, every documented name); every documented name alone in random "
            "letter case; grammar-generated descriptions of 1..6 parts (documented names in random letter case, argument expressions "
            "as generated concrete syntax trees of depth <= 3 with random Unicode-blank layout and redundant parentheses, qubit indices "
            "with random blanks and leading zeros; now and then a repeated qubit, an index far beyond any matrix, usize::MAX, an index "
            ">= 2^64, an integer literal >= 2^64 in an argument); malformed-by-construction descriptions <good parts>;<bad part>[;<more>] "
            "for 14 classes (unknown name, wrong #parameters, wrong #qubits, no qubits incl. digits glued to the name, no name, trailing "
            "text, unrepresentable/Unicode index, usize::MAX index, unclosed argument list, argument that cannot start, unclosed "
            "parenthesis in an argument, dangling operator) with the documented error constructor and payload; mutated renderings and "
            "token soup.  Also: the highest index placed exactly once in the first / a middle / the last part at a random position of "
            "the qubit list; qubit lists in strictly descending order (CX 3 1, CCX 2 1 0) besides random orders; u2/u3/cu2/cu3 alone "
            "with clearly different parameter values (a swapped phi/lambda shows in verif_ops to 1e-4 and in matrix()); object "
            "histories: an earlier description, the current one and the earlier one again built under the SAME name while the first "
            "objects are alive, all observed afterwards.  Whole exponents at and beyond the i32 range (2^31-1, 2^31, 2^31+1, 2^32, "
            "1e10, 1.0e11, negative counterparts; bases -1, 1+-1e-10, 0.999999, ...) in arguments.  ACTION (kind a): apply, apply_slice "
            "on a random vector and apply_mat on a random 2^w x 2 matrix for descriptions with runs of consecutive sub-gates on the "
            "same qubit SET in alternating / permuted operand order (CX 0 1; CX 1 0; CX 0 1, CY, CRZ(a), CCX 0 1 2; CCX 2 1 0, Swap "
            "mixes) on 2..4 qubits - (A) vs the model's routes, (B) vs the ordered product of the documented unitaries times the "
            "input (1e-9).  Stabilizer route: Clifford-only descriptions (every stabilizer gate name; the "
            "first two-qubit gate with operands ascending / descending neighbours, ascending / descending non-neighbours in turn; 1..4 "
            "parts, 2..4 qubits): conjugate() of the built composite on all 4^w Pauli strings - (A) vs Q1t.Conj.conjugate on the model's "
            "composite, (B) M P = +-P' M for M = ordered product of the documented unitaries on the listed qubits, is_stabilizer() = true "
            "- and one circuit each: X-prepared random basis state, the composite, the inverses of the listed gates added one by one in "
            "reverse, measure_all, 8 shots on QuStateRepr::stabilizer and on QuStateRepr::vector: every shot must read the input back "
            "on both ((A): the model carries +-Z_i through its composite and the inverse gates).  (A) implementation vs model: error constructor + payload, width, name "
            "exactly, the sub-gate list of the hook Composite::verif_ops at EVERY width (names and qubit order exactly, parameters to "
            "the 4 decimals of a description), matrix() (width <= 4 quick / 5 thorough) to 1e-9.  (B) width = max index + 1, name, "
            "sub-gate list = the documented gates on the listed qubits in the listed ORDER with the conventional argument values "
            "(expectedOps), matrix = ordered product of the documented unitaries embedded on the "
            "listed qubits (Spec/Unitaries + Spec/Embed over CFloat, 1e-9); malformed => exactly the expected error; never a panic.  "
            "Non-trivial = grammar-generated or malformed-by-construction; distinct = distinct request line.",
    "exhaustive": False,
}


def run(ctx):
    vlib.standard_flow(ctx, SPEC)
    ctx.assumptions += [
        "the regex crate implements leftmost-first matching of the five anchored patterns of parse_gate_* as re-implemented by hand in "
        "Model/FromString.lean (the pattern strings, the \\d table and the case-folding table are re-extracted on every run and compared)",
        "str::split(';'), str::trim and str::to_lowercase behave as modelled (splitSemi, trim over Unicode White_Space, ASCII + Kelvin sign)",
        "the sub-gate list is observed through the hook Composite::verif_ops (description + qubits of every sub-gate; parameters to 4 decimals) "
        "at every width, and exactly through matrix() for width <= 4/5",
        "from_string_render_partial excludes integer literals >= 2^64 in arguments (finding C14-int-literal-overflow / C15-arg-int-literal-overflow)",
        "IEEE-754 rounding and libm are outside the model (argument values and matrices agree to 1e-9)",
        "matrix() of a composite with a sub-gate on a repeated qubit (e.g. 'CX 0 0', accepted by from_string) is outside the gate model's domain and not compared",
    ]


def replay_input(ctx, rp):
    """Re-run one recorded request line through the implementation, the model (A) and the property (B)."""
    req = rp["input"]
    if not vlib.cargo_build(ctx, "c15"):
        return 1
    with vlib.Lock("build"):
        vlib.sh(["lake", "build", "drv_c15"], cwd=vlib.LEAN)
    rc, out = vlib.run_harness(ctx, "c15", ["replay", req])
    reqf, implf, modelf = (os.path.join(ctx.rundir, n) for n in ("req.txt", "impl.txt", "model.txt"))
    reqs, impl = vlib.read_lines(reqf), vlib.read_lines(implf)
    vlib.run_driver(ctx, "drv_c15", reqf, modelf, args=["model"])
    model = vlib.read_lines(modelf)
    fails = spec_check(ctx, reqs, impl)
    print("request:        %s\nimplementation: %s\nmodel:          %s" % (req, impl[0], model[0] if model else "?"))
    a_ok = bool(model) and eq(req, impl[0], model[0])
    print("(A) implementation = model: %s" % a_ok)
    print("(B) property on the implementation's answer: %s" % (fails[0]["why"] if fails else "ok"))
    return 0 if (a_ok and not fails) else 1

"""C12 — the c-QASM export preserves the circuit's semantics or fails."""
import re
import struct
import vlib

PROPS_MODULE = "Q1t.Props.C12"

_TOK = re.compile(r"[A-Za-z_][A-Za-z0-9_]*|\d+\.?\d*(?:[eE][-+]?\d+)?|\.\d+(?:[eE][-+]?\d+)?|\S")


def _decode(t):
    return t.replace("%0A", "\n").replace("%09", "\t").replace("%25", "%")


def _tok(t):
    if t[0].isdigit() or (t[0] == "." and len(t) > 1):
        return "#" + struct.pack(">d", float(t)).hex()
    return t


def canon(ans):
    """(A) compares token sequences per non-blank line: blanks are insignificant, numeric tokens are compared by value
    (as the bit pattern of the double they denote), everything else exactly."""
    if not ans.startswith("ok "):
        return ans.strip()
    out = []
    for line in _decode(ans[3:]).split("\n"):
        toks = tuple(_tok(t) for t in _TOK.findall(line))
        if toks:
            out.append(toks)
    return ("ok", tuple(out))


# (B) failure class (printed by `drv_c12 spec`) -> id of the finding
CLASS_TO_FINDING = {
    "meaning:cond-multiline": "C12-conditional-multiline-first-line-only",
    "syntax:missing-comma": "C12-u2-u3-text-malformed",
    "syntax:stray-semicolon": "C12-u2-u3-text-malformed",
    "meaning:measure-all-basis-not-restored": "C12-measure-all-xy-not-rotated-back",
    "meaning:empty-control": "C12-empty-control-exported-unconditionally",
    "meaning:target-beyond-controls": "C12-target-bits-beyond-controls-ignored",
    "meaning:repeated-control": "C12-repeated-control-bit-negated-twice",
    "syntax:named-parameter": "C12-reference-parameter-by-name",
    "syntax:unevaluated-hole": "C12-reference-parameter-by-name",
    "syntax:bundle-multiline": "C12-kron-bundle-around-anything",
    "syntax:bundle-empty-slot": "C12-kron-bundle-around-anything",
    "syntax:nested-bundle": "C12-kron-bundle-around-anything",
    "meaning:nested-loop": "C12-nested-loop-subcircuits-do-not-nest",
    "meaning:ccrz-relative-phase": "C12-ccrz-template-is-ccu1",
    "panic:condition-bit-without-qubit": "C12-condition-bit-without-qubit-panic",
    "panic:malformed-gate-operands": "C12-malformed-gate-operands-panic",
    "panic:more-than-64-controls": "C12-more-than-64-controls-panic",
}
for _n in ("ch", "crz", "cu2", "cv", "cvdg"):
    CLASS_TO_FINDING["syntax:unknown-instruction:" + _n] = "C12-not-a-cqasm-instruction"


def classify(fl):
    return CLASS_TO_FINDING.get(fl.get("class", ""))


def nontrivial(req, ans):
    # a circuit with at least two operations that was exported, or any refused / panicking export
    return req.count("|") >= 2 or not ans.startswith("ok")


SPEC = {
    "tables": ["CQasmTemplates"],
    "props_module": PROPS_MODULE,
    "required": ["cq_structure", "cq_structure_err", "cq_structure_panic", "cq_refuses", "cq_not_bracketing",
                 "cq_not_restores", "cq_bracketing_agrees_with_circuit", "cq_wellformed_partial", "good_gates",
                 "cq_param_cry_assembled", "cq_param_crx_assembled", "cq_param_cu3_assembled", "cq_param_ccry_assembled",
                 "cq_param_ccrx_assembled", "cq_ccrz_template_is_ccu1", "cq_csdg_of_angle", "cq_ctdg_of_angle",
                 "cq_equiv_partial", "cq_equiv_phase_partial", "cq_equiv_term_partial", "cq_equiv_term_total", "cq_equiv_cond_term_partial", "cq_equiv_cond_term_total",
                 "cq_equiv_measure_all_partial", "cq_equiv_density_partial", "cq_measure_all_is_value_lines",
                 "cq_text_assembly", "cq_text_lib_lines", "cq_text_term", "cq_text_cond_term", "cq_text_partial",
                 "cq_equiv_text_partial", "cq_reads_back_satisfiable", "cq_instr_is_value_line", "cq_gateMatrix_of_values", "cq_equiv_gate_partial", "cq_equiv_cond_partial", "cq_equiv_measure_partial", "cq_equiv_prep_partial",
                 "cq_equiv_barrier_partial", "cq_values_are_cq1_semantics",
                 "templates_as_modelled", "cq_const1_plain",
                 "cq_const1_conditional", "cq_const2_plain", "cq_const2_conditional", "cq_const_multi_plain",
                 "cq_param_rx", "cq_param_ry", "cq_param_rz", "cq_param_u1", "cq_param_cu1",
                 "cq_param_cry_blocks_partial", "cq_param_crx_blocks_partial",
                 "neg_repeated_control_bit", "neg_target_beyond_controls", "neg_conditional_multiline",
                 "neg_measure_all_basis_not_restored", "neg_empty_control", "neg_nested_loop", "neg_unknown_instruction",
                 "neg_kron_bundle", "neg_parameter_text", "cry_negative_angle_wellformed", "neg_panics", "neg_ccrz_block_is_u1"],
    "drivers": ["drv_c12"],
    "harness_bin": "c12",
    "canon": canon,
    "spec_check": vlib.spec_via_driver("drv_c12"),
    "classify": classify,
    "nontrivial": nontrivial,
    "rule": "fixed witnesses of every defect class and of the smallest right behaviours; every library gate (H X Y Z S Sdg T Tdg V Vdg I "
            "RX RY RZ U1 U2 U3 CX CY CZ Swap CH CRX CRY CRZ CS CSdg CT CTdg CU1 CU2 CU3 CV CVdg CCRX CCRY CCRZ CCX CCZ) with positive, "
            "negative, exotic (1e22, 1e300, 1e-300, 5e-324, -0, 2^53+1) , reference and random parameters: plain on a generic state, "
            "conditional on one measured bit, conditional on two bits with all four targets, as a Kron part, inside a Composite and a Loop, "
            "inside a conditional Composite; conditional composites on every permuted placement of 3 qubits with permuted sub-placements and "
            "control lists [2] [2,0] [1,2] [0,2] [1]; measure_all with every permutation of the bit list in X/Y/Z; zero-iteration loops "
            "under a condition (plain, inside a composite, around a composite); 2500 (quick) / 30000 (thorough) random circuits on 0..5 qubits with 1..12 operations of every "
            "CircuitOp kind (gates incl. C<dyn>, Kron, Composite, Loop, nesting depth 3; conditional gates with empty / repeated / "
            "over-long control lists and targets beyond the list; measure X/Y/Z; measure_all X/Y/Z incl. permuted and short bit lists; "
            "peek; peek_all; reset; reset_all; barrier; mis-sized operand lists; NaN/inf parameters), half of them restricted to the gates "
            "and shapes whose translation is expected to be right. (A) compares token sequences per non-blank line, numbers by value. "
            "(B) parses the implementation's text with Spec/CQ1, checks well-formedness and compares, per register word, the unnormalised "
            "mixed state of the program's branches with that of the circuit's Born branches (circuits of <= 3 qubits, <= 256 branches, "
            "finite parameters, operands that can be simulated). Non-trivial = circuit with >= 2 operations, or an export that was refused "
            "or panicked.",
    "exhaustive": False,
}


def run(ctx):
    vlib.standard_flow(ctx, SPEC)
    ctx.assumptions += [
        "cq_equiv_text_partial is the FULL statement (the exported text parses, is well formed, and per register word has the density of "
        "the circuit's Born branches) on the decidable class classOp: 0 < nq <= 64; gates whose term satisfies termOK (25 exact library "
        "gates, V Vdg U1 CU3 up to a unit factor, Kron of one-line gates, Composite, Loop not inside a Loop) and gateSound, on valid "
        "placements; CONDITIONAL gate terms whose library leaves all have a ONE-line translation (condTermOK: Kron / Composite / Loop in "
        "any nesting, also V Vdg U1), on a non-empty control list without repetition in range and a target below 2^len (a multi-line leaf "
        "under a condition is the known finding and is excluded); measure X/Y/Z of qubit q into bit q; reset; barrier; measure_all in Z "
        "into bits 0..n-1. It is proved for the non-zero test that keeps EVERY branch (zero-weight branches are kept on both sides; the "
        "driver's non-zero test drops them: the densities are the same, checked by (B)), in an abstract lawful trigonometric context "
        "(model: the complex numbers). Outside the class - CSdg CTdg (decimal literals), measure_all in X/Y (known finding), reset_all, "
        "reference parameters, the gates without a good template - (B) checks the statement on every run",
        "the text link assumes ReadsBack N S val of the number printer / reader (extends GoodNum): parsing a printed number with Spec/CQ1 "
        "and reading it with S gives the number's value (round trip of f64::to_string / parse); an evaluated hole of a good template "
        "evaluates (C14 evaluator) to a number whose value is the exact product the hole denotes (0.5*x = x/2, 0.25*x = x/4, sums: "
        "holeVal - exact for binary floating point up to underflow, and (B) compares numerically); crk 1, crk 2 are i and e^{i pi/4}. "
        "Satisfiable: cq_reads_back_satisfiable (one-number printer over the complex numbers; all hole shapes of the generated table "
        "are the ones holeVal reads: kernel-checked), with a 12-operation circuit instance (text_equiv_example)",
        "cq_wellformed_partial assumes GoodNum of the number printer: f64::to_string prints one decimal literal (false for NaN / inf) and "
        "the C14 expression evaluator accepts the evaluated holes of the generated templates with printed numbers for the parameters "
        "(an unevaluated hole would stay in the text and is caught by (A) and (B)); non-vacuous: unitNum_good",
        "the assembled template identities are over any commutative ring with LawfulAmp/LawfulHalf/LawfulNegHalf/LawfulQuarter "
        "(model: the complex numbers, Proofs/CQasmComplex.lean); template angles are read as the exact f64 products (0.5*x = x/2)",
        "CSdg / CTdg: the text denotes CU1 of the decimal literal (16 digits of pi/2, pi/4), equal to C-Sdg / C-Tdg iff the angle is "
        "exactly -pi/2 / -pi/4 (cq_csdg_of_angle, cq_ctdg_of_angle); numerically right to 5e-16 (checked by (B))",
        "Spec/CQ1 is my reading of cQASM 1.0 written from memory (crk = controlled phase pi/2^k; measure_x/measure_y rotate back; a "
        "sub-circuit header `.name(k)` extends to the next header, so `.end` opens a sub-circuit called `end`; bundles are one line, of "
        "instructions, not nested; one sign per numeric literal)",
        "f64::to_string is not modelled digit by digit: the model prints the exact decimal expansion and numeric tokens are compared by "
        "value (every decimal text that reads back as the same double is equivalent); Expression::parse/eval is the C14 model",
        "debug-profile overflow checks are on (`1 << shift` with shift = 64 panics); Vec/slice semantics are list semantics",
    ]

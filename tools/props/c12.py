"""C12 — the c-QASM export preserves the circuit's semantics or fails."""
import re
import struct
import vlib

PROPS_MODULE = "Q1t.Props.C12"

_TOK = re.compile(r"[A-Za-z_][A-Za-z0-9_]*|\d+\.?\d*(?:[eE][-+]?\d+)?|\.\d+(?:[eE][-+]?\d+)?|\S")


def _decode(t):
    return t.replace("%0A", "\n").replace("%09", "\t").replace("%25", "%")


def _tok(t):
    if t[0].isdigit() or (t[0] == "." and len(t) > 1):
        return "#" + struct.pack(">d", float(t)).hex()
    return t


def canon(ans):
    """(A) compares token sequences per non-blank line: blanks are insignificant, numeric tokens are compared by value
    (as the bit pattern of the double they denote), everything else exactly."""
    if not ans.startswith("ok "):
        return ans.strip()
    out = []
    for line in _decode(ans[3:]).split("\n"):
        toks = tuple(_tok(t) for t in _TOK.findall(line))
        if toks:
            out.append(toks)
    return ("ok", tuple(out))

"""C13 — the LaTeX (qcircuit) export is a well-formed grid depicting the circuit; undrawable operations are errors."""
import vlib

PROPS_MODULE = "Q1t.Props.C13"


def _decode(t):
    return t.replace("%0A", "\n").replace("%09", "\t").replace("%25", "%")


def canon(ans):
    """(A) is compared on parsed cells: grid rows are split on `&` after removing the final `\\\\`, every
    cell trimmed; other lines (preamble, loop header, closing brace) as trimmed text.  Spacing changes
    do not alarm, a changed symbol or offset does."""
    if not ans.startswith("ok "):
        return ans.strip()
    out = []
    for line in _decode(ans[3:]).split("\n"):
        t = line.strip()
        if not t:
            continue
        if t.endswith("\\\\") and "\\POS" not in t:
            out.append(tuple(" ".join(c.split()) for c in t[:-2].split("&")))
        else:
            out.append(" ".join(t.split()))
    return ("ok", tuple(out))

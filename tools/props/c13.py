"""C13 — the LaTeX (qcircuit) export is a well-formed grid depicting the circuit; undrawable operations are errors."""
import vlib

PROPS_MODULE = "Q1t.Props.C13"


def _decode(t):
    return t.replace("%0A", "\n").replace("%09", "\t").replace("%25", "%")


def canon(ans):
    """(A) is compared on parsed cells: grid rows are split on `&` after removing the final `\\\\`, every
    cell trimmed; other lines (preamble, loop header, closing brace) as trimmed text.  Spacing changes
    do not alarm, a changed symbol or offset does."""
    if not ans.startswith("ok "):
        return ans.strip()
    out = []
    for line in _decode(ans[3:]).split("\n"):
        t = line.strip()
        if not t:
            continue
        if t.endswith("\\\\") and "\\POS" not in t:
            out.append(tuple(" ".join(c.split()) for c in t[:-2].split("&")))
        else:
            out.append(" ".join(t.split()))
    return ("ok", tuple(out))


# (B) failure class (printed by `drv_c13 spec`) -> id of the finding in known_findings.json
CLASS_TO_FINDING = {
    "panic:ctrl-between-targets": "C13-ctrl-between-targets-panic",
    "panic:nested-loop": "C13-nested-loop-header-panic",
    "panic:cond-more-than-64-bits": "C18-controls-gt-64-panic",
    "panic:subbit-out-of-range": "C13-composite-subbit-panic",
    "panic:empty-loop": "C13-zero-width-loop-panic",
    "span:barrier": "C13-barrier-span-not-reserved",
    "unconnected:kron-in-range": "C13-controlled-kron-unconnected",
    "span:kron-in-range": "C13-controlled-kron-unconnected",
    "connector:kron-in-range": "C13-controlled-kron-unconnected",
    "loop-brace:empty-loop-body": "C13-empty-loop-body-brace",
}
for _k in ("symbol", "connector", "order", "unconnected", "span", "missing", "loop-brace", "extra"):
    CLASS_TO_FINDING[_k + ":multistage-in-range"] = "C13-multicolumn-gate-in-range"


def classify(fl):
    return CLASS_TO_FINDING.get(fl.get("class", ""))


def nontrivial(req, ans):
    # a circuit with at least two operations that was drawn, or any refused / panicking export
    return req.count("|") >= 2 or not ans.startswith("ok")


SPEC = {
    "tables": ["LatexGates", "LatexTemplates"],
    "props_module": PROPS_MODULE,
    "required": ["grid_rectangular", "connectors_in_grid_on_partner_partial", "undrawable_is_error", "emitter_templates_as_modelled",
                 "each_op_once_partial", "wire_order", "column_order", "connector_span_clear_partial",
                 "printed_iff_drawn", "stage_is_expected_partial", "stages_are_expected_partial", "latex_never_panics_partial", "loop_brace_partial",
                 "resetall_is_expected", "barrier_is_expected_partial", "barrier_side_condition_small", "barrier_one_column_partial",
                 "block_placements_small", "block_multigate_extent",
                 "neg_ctrl_between_targets_panics", "neg_conditional_composite_overwrites", "neg_barrier_column_reused"],
    "drivers": ["drv_c13"],
    "harness_bin": "c13",
    "canon": canon,
    "spec_check": vlib.spec_via_driver("drv_c13"),
    "classify": classify,
    "nontrivial": nontrivial,
    "rule": "fixed witnesses of every defect class; every library gate (H X Y Z S Sdg T Tdg V Vdg I RX RY RZ U1 U2 U3 CX CY CZ Swap CH "
            "CRX CRY CRZ CS CSdg CT CTdg CU1 CU2 CU3 CV CVdg CCRX CCRY CCRZ CCX CCZ) at every ordered placement on 1..4 qubits, plain after an H, "
            "conditional on 1..3 classical bits, inside a composite, and controlled once more (C<G>) at every placement; block gates with the "
            "trait's default drawing on 1..4 qubits at every placement; 4000 (quick) / 40000 (thorough) random circuits on 0..4 qubits and 0..3 bits "
            "with 1..14 operations of every CircuitOp kind (gates incl. C<dyn>, Kron, Composite via from_string and add_gate, Loop, nesting depth 3, "
            "reference/NaN/inf parameters; conditional gates; measure/peek X/Y/Z; measure_all; peek_all; reset; reset_all; barrier; 5% malformed "
            "operand lists); 2500 / 20000 random sequences of the public LatexExportState methods. (A) compares parsed cells; (B) parses the "
            "implementation's text with Spec/QcGrid and evaluates WellDrawn. Non-trivial = circuit with >= 2 operations, or an export that was refused or panicked.",
    "exhaustive": False,
}


def run(ctx):
    vlib.standard_flow(ctx, SPEC)
    ctx.assumptions += [
        "Rust `format!` of usize/isize and `{:.4}` of a Parameter are not modelled: numbers are printed by Lean's toString (compared by (A)), "
        "parameters cross the boundary as the display strings the harness computes with the same format",
        "the theorems are about the grid of symbols the model's `code` prints; that the exported text reads back as that grid is checked by (B) "
        "on every generated case (Spec.QcGrid.readDoc on the implementation's text), not proved",
        "reading of the property for identity gates (Spec.QcGrid.idleLinks / linesOkIdle): q1tsim draws `I` as the bare wire `\\qw`, so a control / "
        "condition line of the same stage (C<I>, CC..I, conditional I) may end on that wire; a line ending on any other bare wire is a connector failure. "
        "The theorem connectors_in_grid_on_partner_partial uses the strict reading and excludes I under a control",
        "each_op_once / wire_order / connector_span_clear / latex_never_panics / loop_brace are proved on the model's matrix with ghost provenance (Cell.prov), for circuits over "
        "opOk (and opSafe) operations; opOk now contains multi-qubit block gates at placements satisfying the decidable blockOk (kernel-checked for ALL placements on up to "
        "5 qubits; not proved for all registers: needs the theory of the insertion sort in get_ranges), not under a control/condition; the same holds for barrierOk; "
        "the reference drawing circStages is tied to the independent reader's opItems by stages_are_expected_partial / resetall_is_expected / barrier_is_expected_partial; "
        "that the reader's executable left-to-right matching accepts the printed TEXT (incl. the header line read back by readBrace) is evaluated by (B) on every generated case",
        "(B) class tags: connector/span failures are attributed to the operation that drew the cell by the model's provenance (the model is tied to the code by (A)); "
        "a matching failure at operation k is attributed to the first operation of a known defective shape (multistage-in-range, kron-in-range, empty-loop-body) "
        "at or before k, because the left-to-right matching is unreliable after such an operation; a panic is attributed to the operation at which the model panics. "
        "Attribution never changes the verdict ok/fail, only the class tag",
        "Vec/slice semantics are list semantics; usize arithmetic is Nat arithmetic with explicit underflow checks; debug-profile overflow checks are on",
    ]

"""C02 — every shot is a possible run and holds the exact conditional state."""
import vlib

PROPS_MODULE = "Q1t.Props.C02"


def untag(r):
    """lines of a run that was not the first execution of its Circuit object carry the tag `again `"""
    return r[6:] if r.startswith("again ") else r


def classify(fl):
    return {"stab-peekall-impossible-value": "D5-stab-peek-all-independent"}.get(fl.get("class"))


SPEC = {
    "tables": ["PhaseTable", "Conj"],
    "props_module": PROPS_MODULE,
    "required": ["shot_refinement", "refinement_invariant", "step_refinement", "trace_iff_run", "runs_iff_oracle",
                 "gateSemOK_basis_gates", "shot_refinement_basis_gates", "gateSemOK_all_terms", "shot_refinement_unconditional",
                 "shot_refinement_complex", "complex_is_model", "hyps_complex", "histogram_gf_unconditional",
                 "measure_all_repeated_target_ors", "stab_shot_refinement", "stab_measure_per_shot", "stab_shot_refinement_generated", "stab_shot_refinement_generated_unconditional", "localWeights_of_field", "counts_invariant",
                 "collapse_is_project_rescale", "weight_is_born", "collapse_exact", "measure_per_shot", "peek_leaves_state",
                 "peek_all_leaves_state", "reset_per_shot", "reset_leaves_qubit_zero", "stab_peek_all_bell_impossible_value"],
    "drivers": ["drv_c02"],
    "harness_bin": "c02",
    "eq": vlib.hexfloat_eq(1e-9),
    "spec_check": vlib.spec_via_driver("drv_c02", select=lambda r: untag(r).startswith("shot")),
    "classify": classify,
    "nontrivial": lambda r, a: (lambda r: r.startswith("step | measure") or r.startswith("step | reset ") or r.startswith("step | cond")
                                or r.startswith("step | peek") or r.startswith("shot"))(untag(r)),
    "rule": "random circuits over all op kinds (gates incl. nested combinators, conditional gates, measure/peek in X/Y/Z, measure_all, "
            "peek_all, reset, reset_all, barrier; <=3 qubits quick / <=4 thorough, <=12 ops, 1..40 shots) plus structured Clifford circuits in which the measured/reset qubit is entangled with several superposed qubits (several X-carrying generator rows), executed by the real Circuit with "
            "the verif trace: (A) every operation is re-executed by the Lean model from the implementation's pre-state with the "
            "implementation's logged random draws (each draw's distribution parameter compared to 1e-9) and must reproduce the post "
            "state/ranges/register to 1e-9; (B) sampled shots are replayed with forced outcomes by the reference semantics and the "
            "implementation's per-shot state must equal the exact conditional state up to a global phase, be normalised, and the recorded "
            "outcomes must have non-zero probability. EXECUTED AGAIN ON THE SAME OBJECT (lines tagged `again `): feedback circuits (conditional gates "
            "that read classical bits BEFORE the measurement that writes them in this run, then H/X and measurements into those bits) and circuits of "
            "the random streams are executed once (other seed, now and then the other representation, same shot count), then again on the same Circuit "
            "object; steps and shot replays are those of the SECOND run with pre-state = fresh state and ZERO register, so a register that is not "
            "cleared is an (A) mismatch at the first operation and recorded words of probability zero in (B). "
            "Non-trivial = a step with a measurement/peek/reset/conditional, or a shot replay; "
            "distinct = distinct request line.",
}


def run(ctx):
    vlib.standard_flow(ctx, SPEC)
    ctx.assumptions += [
        "shot_refinement_unconditional: gates = well-formed terms on valid placements (Route.Placed: arity, distinct in-range qubits, "
        "n < 64 for composites); GateSemOK is proved for them (gateSemOK_all_terms), no gate hypothesis left",
        "D14 excluded (distinct measure_all/peek_all targets, OpOK) and witnessed (measure_all_repeated_target_ors); LocalWeights (any "
        "field) needed for reset_all only",
        "stabilizer backend: stab_shot_refinement_generated (generated tables, Q8) has the single hypothesis DetShapeHolds (C03); "
        "stab_shot_refinement is RELATIVE TO the explicit tableau contract TableauOK (Tab.new/applyGate/measure "
        "classification/collapse/reset follow the reference semantics: the statements of C03, not proved here); peek_all excluded "
        "(D5, witnessed: stab_peek_all_bell_impossible_value); measure_all needs n distinct targets",
        "IEEE-754 rounding outside the model (agreement to 1e-9)",
        "rand/rand_distr sample exactly from the requested Binomial/WeightedIndex (the model only fixes which distribution is requested)",
    ]

"""C09 — execute starts fresh, re-execute continues, reference parameters are live."""
import vlib

PROPS_MODULE = "Q1t.Props.C09"

def spec_check(ctx, reqs, impl):
    """(B): the property evaluated directly - every execute / reexecute of the object compared with an independent reference
    (fresh object, direct parameters, one run of everything since the last execute, same generator stream)."""
    fails = []
    n = 0
    for i, (r, a) in enumerate(zip(reqs, impl)):
        if r.startswith("prop |"):
            n += 1
            if a != "same":
                kind = r.split("|")[1].strip()
                fails.append({"index": i, "req": r, "impl": a, "class": kind, "why": "fail %s %s" % (kind, a)})
    ctx.coverage["B_evaluated"] = n
    ctx.oblige("spec evaluation (B) ran on %d runs" % n, n > 0, "")
    return fails


SPEC = {
    "tables": [],
    "props_module": PROPS_MODULE,
    "required": ["execute_fresh", "reexecute_continues", "not_executed_errors", "param_read_at_run", "direct_constant"],
    "drivers": ["drv_c09"],
    "harness_bin": "c09",
    "eq": vlib.hexfloat_eq(1e-9),
    "spec_check": spec_check,
    "nontrivial": lambda r, a: r.startswith("call") or r.startswith("step | gate") or r.startswith("step | measure") or r.startswith("step | reset"),
    "rule": "generated histories (2..7 calls) on one real Circuit object holding gates with Rc<RefCell<f64>> reference parameters: "
            "execute_with(vector) / reexecute_with_rng / assignment to a cell / histogram()+cstate() queries, incl. reexecute and queries "
            "before any execution. Every traced operation of every run is re-executed by the Lean model from the state the PREVIOUS call "
            "ended in (re-execution) or from the fresh state with a zero register (execution), with reference parameters resolved to the "
            "cell values current at that run, using the implementation's logged draws; the history machine answers the not-executed calls. "
            "(B) after every run the object's register and quantum state are compared with an independent reference: a fresh Circuit "
            "holding the cell values of each run as direct parameters and executing, in one run from the same generator stream, everything "
            "since the last execute; plus FEEDBACK circuits (X on q if c_q = 1; measure q into an upper bit; H; measure_all - also with a split "
            "in the middle and with entangling CX) executed and re-executed four times on 1-5 qubits, 10-200 shots, both representations: the "
            "upper bits must be 0 in every shot of every run, which holds iff each shot's quantum state is the one of its own classical word. Non-trivial = a call line or a step that changes state; distinct = distinct request line.",
}


def run(ctx):
    vlib.standard_flow(ctx, SPEC)
    ctx.assumptions += [
        "FFI pointer parameters (Parameter::FFIRef) share the Reference code path in Parameter::value(); exercised in C19",
        "after an error inside a run the object's partially updated state is not modelled (errors are terminal in the model)",
    ]

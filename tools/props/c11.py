"""C11 — OpenQASM export preserves circuit semantics or fails."""
import re, struct
import vlib

PROPS_MODULE = "Q1t.Props.C11"


def _decode(t):
    return t.replace("%0A", "\n").replace("%09", "\t").replace("%25", "%")


_TOKEN = re.compile(r"""
    (?P<ws>\s+|//[^\n]*)
  | (?P<id>[A-Za-z_][A-Za-z0-9_]*)
  | (?P<num>(?:[0-9]+(?:\.[0-9]*)?|\.[0-9]+)(?:[eE][+-]?[0-9]+)?)
  | (?P<str>"[^"]*")
  | (?P<sym>==|->|[()\[\]{},;+\-*/^])
""", re.X)


def tokens(text):
    """White-space insensitive token sequence; numeric literals by value (IEEE bits of the nearest double)."""
    out, i = [], 0
    while i < len(text):
        m = _TOKEN.match(text, i)
        if not m:
            out.append("?:" + text[i]); i += 1
            continue
        i = m.end()
        if m.lastgroup == "id":
            out.append("i:" + m.group())
        elif m.lastgroup == "num":
            out.append("n:" + struct.pack(">d", float(m.group())).hex())
        elif m.lastgroup == "str":
            out.append("s:" + m.group()[1:-1])
        elif m.lastgroup == "sym":
            out.append("y:" + m.group())
    return out


def canon(ans):
    """(A) is compared on token sequences: an implementation answer `ok <text>` is tokenised here, the model
    prints its tokens in the same spelling."""
    if not ans.startswith("ok"):
        return ans.strip()
    body = ans[3:]
    if body.startswith("i:OPENQASM "):               # model: tokens
        return ("ok", tuple(body.split()))
    return ("ok", tuple(tokens(_decode(body))))      # implementation: the program text


# (B) failure class (printed by `drv_c11 spec`) -> id of the finding
CLASS_TO_FINDING = {
    "basis_measurement_not_rotated_back": "C11-basis-measurement-not-rotated-back",
    "condition_first_statement_only": "C11-condition-first-statement-only",
    "empty_control_list": "C11-empty-control-list-unconditional",
    "condition_target_overflow": "C11-condition-target-overflow",
    "not_qelib1:cu2": "C11-gate-not-in-qelib1",
    "not_qelib1:cv": "C11-gate-not-in-qelib1",
    "not_qelib1:cvdg": "C11-gate-not-in-qelib1",
    "reference_parameter_by_name": "C11-reference-parameter-by-name",
    "nonfinite_parameter": "C11-nonfinite-parameter-text",
    "empty_statement": "C11-empty-statement",
    "undeclared_register": "C11-undeclared-register",
    "unchecked_operands": "C11-unchecked-operands-exported",
    "panic": "C11-export-panics",
}


def classify(fl):
    return CLASS_TO_FINDING.get(fl.get("class", ""))


def nontrivial(req, ans):
    # a circuit with at least two operations that was exported, or any refused / panicking export
    return req.count("|") >= 2 or not ans.startswith("ok")


SPEC = {
    "tables": ["OpenQasmTemplates"],
    "props_module": PROPS_MODULE,
    "required": ["export_structure", "export_ok_iff", "export_first_failure", "export_refuses", "export_ok_only_expressible",
                 "templates_as_modelled", "structural_literals_as_modelled", "constant_gates_exact", "cv_cvdg_not_in_qelib1",
                 "parametrised_one_qubit_gates", "parametrised_controlled_gates", "export_wellformed_partial", "good_templates", "export_equiv_partial", "export_equiv_program_partial", "export_equiv_text_partial", "parses_as_printed_samples",
                 "lexer_reads_decimal_literals", "equivSound_sound", "leaves_ok", "okParam_eq_good",
                 "semantics_is_fold", "neg_basis_measurement", "neg_condition_first_statement_only",
                 "neg_empty_control_list", "neg_condition_target_overflow", "neg_empty_statement",
                 "neg_reference_parameter", "neg_not_qelib1", "neg_export_panics", "pos_conditional_agrees", "pos_bell_agrees",
                 "pos_cu3_exact", "remark_original_cu3_body"],
    "drivers": ["drv_c11"],
    "harness_bin": "c11",
    "canon": canon,
    "spec_check": vlib.spec_via_driver("drv_c11"),
    "classify": classify,
    "nontrivial": nontrivial,
    "rule": "fixed witnesses of every defect class and of every refusal; every library gate (H X Y Z S Sdg T Tdg V Vdg I RX RY RZ U1 U2 U3 CX "
            "CY CZ Swap CH CRX CRY CRZ CS CSdg CT CTdg CU1 CU2 CU3 CV CVdg CCRX CCRY CCRZ CCX CCZ) at every ordered placement on up to 3 qubits "
            "after a state preparation, plain, conditional on a one-bit register, inside a composite, twice in a loop and in a Kron, "
            "parametrised gates with 4 parameter draws incl. negative/tiny ones; 1500 (quick) / 12000 (thorough) random circuits on 1..3 qubits, "
            "0..3 bits, 1..6 operations (nesting depth 2) whose exported program is RUN and compared with the circuit; as many on 1..5 qubits, "
            "0..4 bits, 1..14 operations, nesting depth 3, with generic C<G>, NaN/inf/1e300/denormal parameters; 400 / 3000 with malformed "
            "operand lists.  All CircuitOp kinds (gate, conditional gate with full / permuted / partial / duplicated / empty control lists and "
            "over-wide targets, measure X/Y/Z, measure_all, peek, peek_all, reset, reset_all, barrier), reference parameters, angles from "
            "{0, ±pi/2, ±pi, 7.5, 1e-9, -0.3, 2pi+0.25, pi/4, 1, -12.75, 0.1, 123456789.125, -1e-300, 1e15, -0.0, 1e22, …} or uniform in [-10, 10]. "
            "(A) compares token sequences (numbers by value); (B) lexes and parses the implementation's text with Spec/OQ2, checks "
            "well-formedness and qelib1-only, and compares per register value the density matrix of the final state with Spec/Born (<= 3 qubits). "
            "Non-trivial = circuit with >= 2 operations, or an export that was refused or panicked.",
    "exhaustive": False,
}


def run(ctx):
    vlib.standard_flow(ctx, SPEC)
    ctx.assumptions += [
        "Rust's `Display for f64` is not modelled: the model keeps a displayed number as a value and (A) compares numeric tokens by value "
        "(the text is read back with a correctly rounded decimal-to-double conversion, Base/DecFloat in the driver, float() in the check)",
        "the reference semantics is my reading of OpenQASM 2.0 and of qelib1.inc (the 23 gates of the file published with the "
        "specification, arXiv:1707.03429), written from memory in lean/Q1t/Spec/OQ2.lean, each gate by its body over U and CX; "
        "cu3 is read with the corrected body (leading `u1((lambda+phi)/2) c;`, i.e. the exact controlled u3), see the Spec header",
        "export_equiv_text_partial states the equivalence about the TEXT under three NAMED assumptions (lean/Q1t/Spec/OQ2Text.lean): "
        "NumRoundTrip (a displayed number is printed as an optional '-' and a decimal literal that reads back as that value), LexesAsPrinted "
        "(the text lexes to the token sequence specToks of the model's lines: what (A) compares on every case; the decimal-literal half is "
        "proved, lexer_reads_decimal_literals) and ParsesAsPrinted (the reference parser reads those tokens as the program toProgramV: "
        "kernel-checked on one instance of every statement/argument shape of the generated table, parses_as_printed_samples; checked by (B) "
        "on every case). No general printer/lexer/parser round-trip theorem",
        "export_equiv_partial is proved (any lawful amplitude type; complex/real model given; zero-weight branches kept on both sides; branch "
        "lists related up to a permutation) for circuits with >= 1 qubit and <= 64 classical bits whose operations are: unconditional sound "
        "gates (Kron/Composite/Loop over every library gate with a good template), conditional sound gates on a permutation of the whole "
        "register with a spellable target and single-statement leaves, measure in Z, measure_all in Z into distinct bits, reset, reset_all, "
        "barrier: everything the exporter gets right on the pinned code; Props.C11.unproved is empty",
        "(B) compares in double precision with tolerance 1e-9, enlarged by 3.6e-15 x sum of |CU3 parameters| because the body of cu3 adds its "
        "angles (the only ill-conditioned place of the reference semantics for huge angles); circuits whose tolerance would exceed 1e-4 are skipped",
        "a reference parameter whose name contains `{` (re-scanned by the macro's brace loop) is outside the model and not generated",
        "Vec/slice semantics are list semantics; u64 shifts by >= 64 are modelled as panics (debug profile)",
    ]

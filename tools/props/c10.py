"""C10 — seeded runs are reproducible and use only the supplied generator."""
import os
import vlib

PROPS_MODULE = "Q1t.Props.C10"


def run(ctx):
    vlib.translate(ctx, ["AmbientSites"])
    vlib.prove(ctx, PROPS_MODULE, [], ["draws_prefix", "same_prefix_same_result", "run_append", "ambient_sites_as_expected",
                                         "seeded_paths_have_no_ambient_site"])
    reqs = impl = []
    if vlib.cargo_build(ctx, "c10"):
        rc, out = vlib.run_harness(ctx, "c10")
        ctx.oblige("harness run completes", rc == 0, out[-300:])
        if rc == 0:
            reqs, impl = vlib.read_lines(os.path.join(ctx.rundir, "req.txt")), vlib.read_lines(os.path.join(ctx.rundir, "impl.txt"))
    diff = [(r, a) for r, a in zip(reqs, impl) if not a.startswith("same")]
    ctx.oblige("property evaluated directly on the implementation: identically seeded runs give bit-identical per-shot registers and "
               "draw the same number of words from the supplied generator — twice in one process (thread-local generator consumed in "
               "between), on the same Circuit object after another run history (same/different shot count, with/without a reexecute), "
               "on 16 threads, and in a separate process (%d circuits, incl. 7-11 qubit measure_all/peek_all circuits on the state vector)" % len(reqs), not diff and len(reqs) > 0,
               "; ".join("%s -> %s" % (r[:150], a[:200]) for r, a in diff[:2]))
    if diff:
        r, a = min(diff, key=lambda x: len(x[0]))
        vlib.violation(ctx, {"summary": "two identically seeded runs of the same circuit differ", "input": r, "observed": a,
                             "seed": ctx.seed, "tier": ctx.tier})
    ctx.coverage.update({
        "evaluations": len(reqs), "distinct_nontrivial": len(set(r for r, a in zip(reqs, impl) if a.endswith("ran"))),
        "rule": "random circuits over all op kinds on the vector, stabilizer and automatically chosen representations, 1..300 shots, "
                "plus wide (7..11 qubit) state-vector circuits ending in measure_all/peek_all with several outcomes; each compared across: "
                "a second run, the same object after a different history, 16 threads, a child process; "
                "non-trivial = the run completed (so registers were compared); distinct = distinct (circuit, representation, shots, seed)",
        "samples": [{"req": reqs[i][:300], "impl": impl[i]} for i in range(min(3, len(reqs)))],
        "exhaustive": False,
    })
    ctx.assumptions += [
        "PARTIAL: that the Rust code consults no ambient generator / randomly seeded hasher / thread or process state is established by a "
        "syntactic scan of the source regenerated on every run (theorem ambient_sites_as_expected: token-level, macros and dependencies "
        "are not expanded) and observed by the harness, not proved semantically; the theorems state the structural determinism of the model (tied to the code by the C01/C02 trace correspondence)",
        "iteration order of the identity-hashed count map in measure_all is an oracle in the model; its determinism is covered by the runtime comparison only",
    ]

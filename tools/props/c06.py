"""C06 — stabilizer flags and Pauli-conjugation rules match the gate matrices."""
import os
import vlib

PROPS_MODULE = "Q1t.Props.C06"

# class tag of the spec mode -> id of the (proposed) entry in known_findings.json
# (finding C06-loop0-nonclaiming-accepts is fixed: a non-claiming gate that accepts is a violation, whatever its shape)
KNOWN_CLASSES = {
}


def canon(a):
    # the outcome of the run (`# res …`) is carried for (B) only; the model answers flag, representation, claims
    return a.split(" # ")[0].rstrip()


def spec_check(ctx, reqs, impl):
    """(B) through `drv_c06 spec`.  The property relates three answers about the same gate object
    (is_stabilizer(), matrix(), conjugate()), so the lines of one term are joined before they are fed
    to the driver:  conjall: <req>\\t<answer>\\t<flag>\\t<matrix answer>;  conj: <req>\\t<answer>\\t<flag>."""
    flags, mats = {}, {}
    for r, a in zip(reqs, impl):
        parts = r.split(" | ")
        if parts[0] == "isstab":
            flags[parts[1]] = a
        elif parts[0] == "matrix":
            mats[parts[1]] = a
    inf, outf = os.path.join(ctx.rundir, "spec_in.txt"), os.path.join(ctx.rundir, "spec_out.txt")
    idx = []
    with open(inf, "w") as f:
        for i, (r, a) in enumerate(zip(reqs, impl)):
            parts = r.split(" | ")
            kind = parts[0]
            if kind in ("conjall", "conjs"):
                line = [r, a, flags.get(parts[1], "missing")]
                if parts[1] in mats:
                    line.append(mats[parts[1]])
            elif kind == "conj":
                line = [r, a, flags.get(parts[1], "missing")]
            elif kind in ("circ", "hist"):
                line = [r, a]
            else:
                continue
            idx.append(i)
            f.write("\t".join(line) + "\n")
    rc = vlib.run_driver(ctx, "drv_c06", inf, outf, args=["spec"])
    out = vlib.read_lines(outf) if rc == 0 else []
    ctx.oblige("spec evaluation (B) ran on %d cases" % len(idx), rc == 0 and len(out) == len(idx),
               "rc=%d lines=%d" % (rc, len(out)))
    fails, nskip, kinds = [], 0, {}
    for i, o in zip(idx, out):
        if o == "ok":
            k = reqs[i].split(" ", 1)[0]
            kinds[k] = kinds.get(k, 0) + 1
            continue
        if o == "skip":
            nskip += 1
            continue
        parts = o.split(" ", 2)
        fails.append({"index": i, "req": reqs[i], "impl": impl[i][:2000],
                      "class": parts[1] if len(parts) > 1 else "", "why": o})
    ctx.coverage["B_evaluated"] = len(idx) - nskip
    ctx.coverage["B_ok_by_kind"] = kinds
    return fails


def nontrivial(r, a):
    k = r.split(" ", 1)[0]
    if k in ("conjall", "conjfs"):
        return " ; ok " in a          # a claiming gate whose rule was actually dumped
    if k == "conjs":
        return "ok " in a
    if k in ("circ", "hist"):
        return "claims t" in a or "claims f" in a or "claims -" in a     # at least one building call
    return k == "conj"


SPEC = {
    "tables": ["Conj"],
    "props_module": PROPS_MODULE,
    "required": ["prim_conj_exact", "claiming_is_clifford", "param_prims_do_not_claim", "nonclaiming_refuse",
                 "named_wrappers_keep_defaults", "nonclaiming_refuse_term", "loop0_nonclaiming_refuses",
                 "is_stabilizer_conjunction", "routing_sound", "conj_exact_of_term_general", "prims_exact_generated",
                 "spec_unitary_of_term", "conj_exact_of_term", "claiming_term_is_clifford", "conj_exact_kron_own_matrix",
                 "identity_skips_arity_check"],
    "drivers": ["drv_c06"],
    "harness_bin": "c06",
    "canon": canon,
    "eq": vlib.hexfloat_eq(1e-9),
    "spec_check": spec_check,
    "classify": lambda fl: KNOWN_CLASSES.get(fl.get("class")),
    "nontrivial": nontrivial,
    "rule": "(1) every registry gate (39; 4 parameter draws in thorough): is_stabilizer(), matrix(), conjugate() on all 4^k strings and on "
            "every operand slice of length 0..k+2 != k; (2) 34 written-out nestings (among them sub-gates that share a description but not the claim) + generated nested terms on 1..4 qubits (Kron, "
            "Composite via add_gate, Loop with 0..3 iterations, depth <= 3; 60% purely Clifford, the rest with T / rotations / C<G> / "
            "named controlled gates injected at 6% or 20% per leaf): the same calls, all 4^k strings; (3) composites of parameterless "
            "named gates rebuilt through Composite::from_string; (4) malformed composites (add_gate validates nothing: arity mismatch, "
            "out-of-range, repeated, missing local bits; also under Loop and Kron): error constructor / index panic; (5) generated "
            "circuits on 1..4 qubits with conditional gates (three modes: all claiming / only conditional gates may not claim / any "
            "gate may not claim): is_stabilizer_circuit(), the representation execute_with_rng creates (read from verif_snapshot "
            "after the run), the claim of every gate.  (A) every answer vs the Lean model (matrix entries to 1e-9). (B) from the "
            "implementation's own matrix() in floating point: claim => M M^H = 1 and M P M^H = +-P' for every dumped answer (1e-9); "
            "no claim => every string and every wrong-length slice is refused; is_stabilizer_circuit = conjunction of the claims; "
            "stabilizer representation only if all claim; a run routed to the tableau never ends in NotAStabilizer. "
            "Non-trivial = a conjall/conjfs line with at least one accepted string, a wrong-length conj line, a circuit with at "
            "least one gate; distinct = distinct request line. "
            "(6) wide composites on 5 and 6 qubits whose 2nd/3rd sub-gate is itself a gate on >= 5 qubits (nested composite, Kronecker "
            "tree, loop) placed after sign-flipping gates; all weight-1 and weight-2 strings plus 48 (quick) / 256 (thorough) random "
            "strings; (B) from the 32x32 / 64x64 matrix(): M M^H = 1 and M P = +-P' M. (7) building histories on ONE circuit object: "
            "is_stabilizer_circuit() after Circuit::new and after every building call, optionally one execute in between, then "
            "execute; in half of the histories every earlier gate claims and the LAST call adds a conditional gate that does not; "
            "(A) vs the model's conjunction over the prefix, (B) vs the conjunction of the implementation's own claims. "
            "(8) wide loops: Loop (1-3 iterations, also reached through a Composite on permuted qubits) over Composite bodies on 33, 34, "
            "40, 64, 65 qubits built from 4-9 Clifford sub-gates on scattered qubits (0, 1, 31, 32, 33, n-33, n-32, n-1, random); on ONE "
            "gate object ~24 strings in sequence: triples that agree on the last 32 positions and differ before, strings that agree on "
            "the leading positions and differ within the last 32, repeated strings, the identity, weight-1 strings at both ends, random "
            "strings; (A) vs the model; (B) without a matrix: the rule of every primitive is read off its documented 2x2/4x4 matrix "
            "(independent of the generated table) and composed through the body's sub-gates by gather/apply/scatter, iterated.",
    "exhaustive": False,
}


def run(ctx):
    vlib.standard_flow(ctx, SPEC)
    ctx.assumptions += [
        "IEEE-754 rounding is outside the model: (B) compares G P G^H with +-P' to 1e-9 in double precision; the theorems are over the exact field Q(zeta_8) and over any commutative ring satisfying the amplitude laws",
        "conj_exact_of_term / claiming_term_is_clifford are stated for the documented matrix Spec.specMatrix (composite = ordered product of embedded factors, loop = power); its equality with the model's own matrix() is proved for terms without Composite/Loop (C05 unitary_of_term, used in conj_exact_kron_own_matrix) and is C04's corollary for Composite/Loop; the correspondence run compares the implementation's matrix() of every generated composite/loop with the rule directly (B)",
        "I::conjugate omits check_nr_bits (recorded in Gen.conjNoArityCheck and modelled): a wrong-length slice is accepted unchanged by I",
        "the representation chosen by execute_with_rng is observed through the verif_snapshot hook after the run",
    ]

"""C16 — a gate's square is the gate applied twice."""
import vlib

PROPS_MODULE = "Q1t.Props.C16"

# class tag of the spec mode -> id in known_findings.json
KNOWN_CLASSES = {
    "cu2-square": "C16-cu2-square",
}

SPEC = {
    "tables": [],
    "props_module": PROPS_MODULE,
    "required": ["square_exact_prim", "u2_square_phase", "square_term", "square_spec_partial",
                 "cu2_square_wrong_of_phase", "cu2_square_wrong", "square_reference_refused",
                 "square_loop_keeps_body", "square_unimplemented", "complex_is_model"],
    "drivers": ["drv_c16"],
    "harness_bin": "c16",
    "eq": vlib.hexfloat_eq(1e-12),
    "spec_check": vlib.spec_via_driver("drv_c16"),
    "classify": lambda fl: KNOWN_CLASSES.get(fl.get("class")),
    "nontrivial": lambda r, a: a.startswith("ok") or a.startswith("err"),
    "rule": "static list of every Square implementor (21 primitives, 18 named controlled gates, Loop) and 76 written-out nestings of "
            "C<..>, Kron<..,..>, Loop (C<C<RY>>, C<C<C<RZ>>>, Kron<U2,CX>, C<Kron<S,T>>, C<U2>, C<C<U2>>, C<Kron<U2,X>>, Kron<C<U2>,H>, "
            "Kron<U3,X>, C<Loop>, Kron<Loop,H>, ...) at generated parameters (0, +-pi/2, +-pi, >2pi, 1e-9, negative, random); a second "
            "stream gives the parameters kinds Direct/Reference/FFIRef by cycling masks (r, f, dr, rd, fd, drf, ddr): square() is called "
            "while the cells hold a decoy, then the cells are overwritten and the matrices are taken (a frozen value would show). "
            "(A) square()?.matrix() and matrix() vs the Lean model to 1e-12, error constructor exactly. (B) square()?.matrix() = "
            "c * matrix()*matrix() for ONE unit scalar c (1e-9) - which forces the controlled block of a controlled gate to match exactly; "
            "an error only where a non-Direct parameter or a U3 sits outside loop bodies. "
            "Action (request sqact, every case of both streams again, plus 16 nestings whose Kron factors have DIFFERENT widths: Kron<CRX,RY>, "
            "Kron<RY,CRZ>, Kron<RY,CCRX>, Kron<CCRY,RX>, Kron<Kron<CRX,H>,RY>, Kron<RZ,Kron<T,CRY>>, Kron<Loop2,RY>, Kron<RY,Loop2>, Kron<Loop1,Loop2>, "
            "C<Kron<CRX,RY>>, C<Kron<RY,CRZ>>, C<C<Kron<T,CRY>>>, C<Kron<Loop2,RX>>, Kron<C<Kron<RY,CRZ>>,V>, Kron<T,CV>, Kron<CS,V>): "
            "square()?.apply(psi1), .apply_slice(psi2) on fixed non-symmetric vectors and .apply_mat(Psi) on a 2^n x 3 matrix, "
            "(A) vs the model's square matrix times the input to 1e-12, (B) vs c * matrix()*matrix() * input (the implementation's own matrix() of the "
            "ORIGINAL, the same scalar c as for the matrices) to 1e-9 - a returned gate whose matrix() is right but which acts differently fails here. "
            "Error payload: an OpNotImplemented answer carries both strings (blanks as _, parameter lists removed): (A) the model's ('square', description "
            "of the refusing gate: the U3, or the Kron that replaced an inner error), (B) the operation must be 'square' and the gate a sub-gate of the receiver "
            "(U3, C<U3>, C<C<U3>>, CU3, C<CU3>, Kron<H,U3>, Kron<C<U3>,Loop>, C<Kron<Kron<RX,U3>,T>>, ...). "
            "Request sq2 (all-Direct cases): the RETURNED gate squared again (second square of U2 = default square of U3, Kron<U3,Kron<I,I>>, ...): matrices "
            "and error payload as above. "
            "Request sqconj (every case with is_stabilizer() on <= 3 qubits: 15 Clifford primitives, Clifford Loops on 1/2/3 qubits with sign-flipping bodies "
            "and 1..5 iterations, Kron of them, Kron of Clifford primitives): square()?.conjugate(P) for ALL 4^k Pauli strings vs the original's conjugate "
            "applied twice (signs xor-ed) and vs the returned gate's own matrix (M P M^H = +-P'), (A) vs the conjugation model of the squared term. "
            "Non-trivial = the call returned (value or error); distinct = distinct request line.",
    "exhaustive": False,
}


def run(ctx):
    vlib.standard_flow(ctx, SPEC)
    ctx.assumptions += [
        "IEEE-754 rounding and libm sin/cos are outside the model (agreement checked to 1e-12)",
        "usize overflow of 2*nr_iterations in Loop::square is not modelled",
        "types without `impl Square` (Composite, and wrappers around it) cannot be called at all; the model's `noImpl` outcome is not observable in the harness",
    ]

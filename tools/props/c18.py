"""C18 — invalid requests yield errors, never panics or silently wrong runs."""
import os
import vlib

PROPS_MODULE = "Q1t.Props.C18"

# class tag printed by `drv_c18 spec` -> id of the known finding (known_findings.json / VERIF_EXTRA_KNOWN).
# Tags ending in `wellformed-circuit`, `after-*`, `unsupported-gate`, `builder-*`, `macro-*` are NOT listed: a panic or a
# divergence on a WellFormed circuit, a builder that panics / is not atomic, a dropped macro error are violations.
KNOWN_CLASSES = {
    "exec-panic:zero-shots": "D9-zero-shots-panic",
    "reps-diverge:zero-shots": "D9-zero-shots-panic",
    "exec-panic:dup-qubits": "C19-abort-exec-dup-qubits",
    "reps-diverge:dup-qubits": "C18-dup-qubits-silently-simulated",
    "silently-accepted:dup-qubits": "C18-dup-qubits-silently-simulated",
    "exec-panic:after-dup-qubits": "C18-dup-qubits-silently-simulated",     # a later operation trips over the garbage state
    "reps-diverge:after-dup-qubits": "C18-dup-qubits-silently-simulated",
    "latex-panic:dup-qubits": "C19-abort-export-latex-dup-qubits",
    "exec-panic:qubit-out-of-range": "C18-qustate-qubit-out-of-range",
    "reps-diverge:qubit-out-of-range": "C18-qustate-qubit-out-of-range",
    "exec-panic:after:qubit-out-of-range": "C18-qustate-qubit-out-of-range",
    "exec-panic:non-finite-parameter": "C18-nonfinite-parameter-measure-all-panic",
    "exec-panic:cbit-ge-64": "C19-abort-exec-cbit-ge-64",
    "reps-diverge:cbit-ge-64": "C19-abort-exec-cbit-ge-64",
    "exec-panic:controls-gt-64": "C18-controls-gt-64-panic",
    "oq-panic:controls-gt-64": "C18-controls-gt-64-panic",
    "cq-panic:controls-gt-64": "C18-controls-gt-64-panic",
    "latex-panic:controls-gt-64": "C18-controls-gt-64-panic",
    "oq-panic:arity": "C19-abort-export-qasm-arity",
    "cq-panic:arity": "C19-abort-export-qasm-arity",
    "oq-panic:measure-all-len": "C19-abort-export-qasm-measure-all-len",
    "cq-panic:cond-control-ge-nq": "C19-abort-export-cqasm-cond-control-ge-nq",
    "exec-panic:bad-composite": "C18-composite-unvalidated-subgates",
    "reps-diverge:bad-composite": "C18-composite-unvalidated-subgates",
    "silently-accepted:bad-composite": "C18-composite-unvalidated-subgates",
    "oq-panic:bad-composite": "C18-composite-unvalidated-subgates",
    "cq-panic:bad-composite": "C18-composite-unvalidated-subgates",
    "latex-panic:bad-composite": "C13-composite-subbit-panic",
    "latex-panic:nested-loop": "C13-nested-loop-header-panic",
    "latex-panic:ctrl-between-targets": "C13-ctrl-between-targets-panic",
}

# witnesses in the c18 protocol (`<nq> <nc> | calls | <shots>`) for the findings whose committed witness is written in
# another property's protocol
WITNESS_C18 = {
    "D9-zero-shots-panic": "1 1 | add_conditional_gate 1 0 1 1 0 X | 0",
    "C13-ctrl-between-targets-panic": "3 0 | add_gate 3 1 0 2 CCX | 1",
    "C13-nested-loop-header-panic": "1 0 | add_gate 1 0 Loop o 3 b 1 1 Loop i 3 c 1 1 X 1 0 1 0 | 1",
    "C13-composite-subbit-panic": "1 0 | add_gate 1 0 Comp c1 1 1 H 1 1 | 1",
    "C19-abort-exec-cbit-ge-64": "1 65 | measure 0 64 | 1",
    "C19-abort-exec-dup-qubits": "1 0 | cx 0 0 | 1",
    "C19-abort-export-qasm-arity": "1 0 | add_gate 0 H | 1",
    "C19-abort-export-qasm-measure-all-len": "1 3 | measure_all 2 1 2 | 1",
    "C19-abort-export-cqasm-cond-control-ge-nq": "1 2 | add_conditional_gate 1 1 1 1 0 X | 1",
    "C19-abort-export-latex-dup-qubits": "2 0 | cx 0 0 | 1",
}

_hex_eq = vlib.hexfloat_eq(1e-9)


def eq(req, a, b):
    """(A): exact, floats to 1e-9.  One documented tolerance: on a gate placed on a REPEATED qubit the matrix-mode route
    model stops (`panic`) where the Rust assertion looks at the total element count of the 2-D state and, with an even
    number of ranges, goes on with garbage; the driver then answers `panic-or-garbage`."""
    if b == "oob-unmodelled":
        # QuState-level call on the stabilizer representation with a qubit index >= n that the method does not validate:
        # the flat tableau array aliases the next row (any outcome); (B) still demands no panic and identical rejection
        return True
    if b == "panic-or-garbage":
        return a == "panic" or a.startswith("ok | V ")
    return _hex_eq(req, a, b)


def nontrivial(req, ans):
    k = req.split(" ", 1)[0]
    if k == "build":
        return "err" in ans          # at least one call was rejected
    return True


SPEC = {
    "tables": ["MacroMethods", "OpenQasmTemplates", "CQasmTemplates", "PhaseTable", "Conj"],
    "props_module": PROPS_MODULE,
    "required": ["macro_propagates", "macro_returns_first_error", "builder_model_is_reference", "builder_atomic",
                 "builder_accepts_iff", "builder_appends", "builder_errors", "builder_never_panics", "builder_sequences",
                 "no_panic_partial", "no_panic_reexecute_partial", "no_panic_stabilizer_partial", "stabilizer_ok_or_refuses_partial", "stabilizer_refuses_nonclaiming_partial", "nonclaiming_vector_ok_stabilizer_err_partial", "no_panic_stabilizer_unconditional", "reps_same_constructor_unconditional", "exec_either_representation_partial",
                 "reps_same_constructor_partial", "exports_never_panic_partial", "export_input_is_the_circuit", "openqasm_table_is_current",
                 "neg_zero_shots", "neg_repeated_qubit", "measure_all_short_same_error", "peek_all_long_same_error",
                 "measure_all_len_rejected_identically", "neg_cbit_ge_64",
                 "neg_controls_gt_64", "cond_arity_same_error", "gate_arity_rejected_identically", "neg_empty_operands_export",
                 "neg_ctrl_between_targets", "reset_all_no_qubits_exports", "empty_barrier_exports", "neg_cqasm_control_ge_nq", "neg_composite_subgate_out_of_range", "neg_nested_loop"],
    "drivers": ["drv_c18"],
    "harness_bin": "c18",
    "eq": eq,
    "spec_check": vlib.spec_via_driver("drv_c18"),
    "classify": lambda fl: KNOWN_CLASSES.get(fl.get("class")),
    "nontrivial": nontrivial,
    "rule": "MALFORMED-heavy call sequences on real Circuits (0-4 qubits; 0-5, 64, 65, 70 classical bits; 1-8 calls quick / 1-10 "
            "thorough) over every public building method (add_gate / add_conditional_gate with all 41 library gates and Kron of them, "
            "measure*, peek*, measure_all*, peek_all*, reset, reset_all, barrier, h x y z s sdg rx ry rz u1 u2 u3 cx): indices in range, "
            "= bound, just above, 1000, 2^40, 2^63, usize::MAX; operand lists of the right length, empty, one short, one/two/three long, "
            "distinct, with a forced repetition, out of range; control lists incl. the whole register; targets up to u64::MAX; half of the "
            "sequences Clifford-only; one gate in eight is a Composite / Loop (0-4 iterations) of library gates built by Composite::add_gate or Composite::from_string, with sub-gates on local indices >= width, repeated or mis-sized; a sibling stream calls every sibling method (measure/peek/_x/_y/_z/_basis; measure_all/peek_all/_basis; reset/h/../u3/add_gate/add_conditional_gate/barrier/cx) with the SAME boundary arguments (bound-1, bound, bound+1, 62..65, usize::MAX; descending lists; nr_cbits = 63/64/65; control lists of exactly nr_cbits bits). Every call under catch_unwind: outcome (ok / error constructor + payload / PANIC) and, after a "
            "failed call, whether every public query of the object (nr_qbits, nr_cbits, is_stabilizer_circuit, verif_nr_ops, the three exports) is unchanged; the final number of operations. Then open_qasm / c_qasm / latex (class), "
            "execute_with on QuStateRepr::vector and ::stabilizer, reexecute after each (also after an error inside a run), and execute_with(vector) once more on the same object, with 0/1/2/3/5 shots: every traced operation is re-run by "
            "the Lean model from the implementation's own pre-state with its logged draws (step lines), the failing operation too. "
            "Fixed Kron stream: 14 Kron gates with factors of different widths (1+2, 2+1, 1+3, 3+1, nested; also equal widths), plain and under a condition, on distinct in-range qubits in ascending / descending / rotated order - built, exported to all three formats and executed on both representations. Fixed stream: each of rx ry rz u1 u2 u3 (every parameter position), add_gate RX, CRX, CRY and a conditional RY with a NaN, +inf and -inf parameter, followed by measure / peek / reset / measure_x / measure_basis Y / peek_basis X / measure_all / peek_all and a further measure, on both representations. QuState stream: on VectorState and StabilizerState directly (0-3 qubits, 0-3 shots, after a short valid prelude) every public trait method that takes a gate or an operand list - apply_gate, apply_unary_gate_all, apply_conditional_gate, measure_into, peek_into, measure_all_into, peek_all_into, reset, reset_all - with gates of arity 0 (Composite::new(\"nop\", 0)), 1, 2, operand lists right / empty / short / long / repeated / descending / one past the register, control slices of the wrong length, classical bits 63 / 64, registers shorter and longer than the shot count; each call compared with the model from the implementation's own pre-state (qs lines), the two representations with each other (qpair), and the same object used once more afterwards. Macro stream: 46 compiled circuit! invocations, one per builder method with a failing call in the middle (arguments count "
            "their own evaluations), plus failing first/last calls and zero-width registers. (B): builders vs the reference reading "
            "(first out-of-range index), no PANIC anywhere, identical rejection by both representations, macro returns the first error; "
            "every failure carries the violated WellFormed conjunct as class tag. "
            "Non-trivial = build line with a rejected call, or any export / step / pair / macro line; distinct = distinct request line.",
    "exhaustive": False,
}


def replay_known(ctx):
    """Step 5 of a check run: replay the witness of every open known finding of C18 written in the c18 protocol
    (`<nq> <nc> | calls | <shots>`): the property must still fail there with the entry's class, and the implementation must
    still agree with the model."""
    exe = os.path.join(vlib.CARGO_TARGET, "debug", "c18")
    drv = os.path.join(vlib.LEAN, ".lake", "build", "bin", "drv_c18")
    if not (os.path.exists(exe) and os.path.exists(drv)):
        return
    for f in vlib.load_known(ctx.pid):
        w = WITNESS_C18.get(f["id"], f.get("witness", ""))
        if f.get("status") != "open" or w.count(" | ") < 1 or not w[:1].isdigit():
            continue
        d = os.path.join(ctx.rundir, "witness_" + f["id"])
        env = vlib.env_base(ctx)
        env["C18_ONE"] = w
        rc, out = vlib.sh([exe, d], env=env, timeout=300)
        if rc != 0:
            ctx.oblige("known finding %s: witness replay ran" % f["id"], False, out[-300:])
            continue
        reqs, impl = vlib.read_lines(os.path.join(d, "req.txt")), vlib.read_lines(os.path.join(d, "impl.txt"))
        vlib.run_driver(ctx, "drv_c18", os.path.join(d, "req.txt"), os.path.join(d, "model.txt"), args=["model"])
        model = vlib.read_lines(os.path.join(d, "model.txt"))
        bad = vlib.compare(reqs, impl, model, None, eq)
        ctx.oblige("known finding %s: implementation = model on the witness" % f["id"], not bad,
                   "; ".join("%s impl=%s model=%s" % (r[:80], a[:80], b[:80]) for _, r, a, b in bad[:2]))
        with open(os.path.join(d, "spec_in.txt"), "w") as fh:
            for r, a in zip(reqs, impl):
                fh.write(r + "\t" + a + "\n")
        vlib.run_driver(ctx, "drv_c18", os.path.join(d, "spec_in.txt"), os.path.join(d, "spec_out.txt"), args=["spec"])
        classes = [o.split(" ", 2)[1] for o in vlib.read_lines(os.path.join(d, "spec_out.txt")) if o.startswith("fail ")]
        mine = [c for c in classes if KNOWN_CLASSES.get(c) == f["id"]]
        other = [c for c in classes if KNOWN_CLASSES.get(c) is None]
        ctx.oblige("known finding %s: witness fails only in listed classes" % f["id"], not other, " ".join(other))
        if mine and not bad:
            vlib.report_known(ctx, f)
        elif not mine:
            ctx.note("known finding %s no longer reproduces on its witness (classes seen: %s)" % (f["id"], classes))


def run(ctx):
    vlib.standard_flow(ctx, SPEC)
    replay_known(ctx)
    ctx.assumptions += [
        "no_panic_partial / no_panic_reexecute_partial: vector representation only, hypothesis ExecWF (the execution-relevant "
        "conjuncts of WellFormed, incl. well-formed Composite/Loop bodies and nr_qbits < 64); the numeric panic site WeightedIndex::new(..).unwrap() "
        "(all-zero / NaN weights) is not excluded by operand shapes (C02 excludes it in exact arithmetic)",
        "no_panic_stabilizer_* / reps_same_constructor_* (stabilizer representation, all register sizes, fresh state or "
        "re-execute): hypotheses ExecWF, Circuit::is_stabilizer_circuit() accepts the circuit (the condition under which execute() "
        "chooses this representation) and parameter-free gate terms; DetShapeHolds is proved by C03 (the _unconditional twins). "
        "BackendSafe is proved from C03's progress theorems (Proofs/NoPanicStab.lean lift, Proofs/NoPanicStabC03.lean discharge); the "
        "statement is about the tableau model with C03's conjugation conjOfT over the generated tables Conj / PhaseTable",
        "stabilizer_ok_or_refuses_partial / stabilizer_refuses_nonclaiming_partial / nonclaiming_vector_ok_stabilizer_err_partial "
        "(caller-chosen stabilizer representation, any gates): hypothesis ExecWF; every run ends Ok or Err(NotAStabilizer), never a "
        "panic; it ends Err(NotAStabilizer) when the first non-claiming operation is an UNCONDITIONAL gate. For a non-claiming "
        "CONDITIONAL gate the refusal happens only if some shot satisfies the condition (apply_conditional_gate conjugates only "
        "those columns), so only `Ok or NotAStabilizer` is stated. C03's conjOfRule maps the index panic of Composite::conjugate to "
        "an error; the theorems do not lean on that: refuse_exact (Proofs/ConjRefuseExact.lean) shows C06's model answers "
        "NotAStabilizer itself - not the panic, not an arity error - on a well-formed term and a slice of its width",
        "exports_never_panic_partial covers all three exporters as statements about the exporter models of C11 / C12 / C13 on the "
        "image of the built circuit, under WellFormed; for latex() with the extra hypothesis condOneColumn (a conditional gate is a "
        "one-column library gate under distinct condition bits: the class C13's no-panic theorem covers; not a panic class, hence "
        "not a conjunct of WellFormed). In the driver the implementation's open_qasm / c_qasm outcome class is compared with the "
        "C11 / C12 models themselves, and the fast classifier Model/ExportClass.lean is cross-checked against them on every generated circuit",
        "the register sizes generated stay below 5 qubits (allocation aborts such as 1<<60 qubits are outside the run)",
        "matrix-mode gate routes on a REPEATED qubit: the model stops where Rust asserts on the total element count; with an even "
        "number of ranges the implementation goes on with garbage (accepted as `panic-or-garbage`, inside the dup-qubits class)",
        "that the Rust code has no panic site the models lack is established by reading and by the correspondence run only",
        "the harness is a checked (debug) build: shift overflows panic; in a release build they wrap silently",
    ]

"""C19 — the C interface mirrors the Rust API, reports failures as error results, and owns its memory correctly.

Flow (differs from vlib.standard_flow because a panic across `extern "C"` aborts the process):
  translate FfiTables/FfiSigs -> prove Q1t.Props.C19 -> build harness ->
  run the harness as a child per batch (case id written before the case runs; an abort is bisected by
  re-running the ranges before and after the offending case) ->
  (A) answers of the real extern "C" functions + allocator log  ==  Lean model of ffi.rs, per call ->
  (B) ownership protocol + mirror rule evaluated on the logged behaviour (driver `spec` mode) ->
  every predicted abort class is confirmed by really executing a witness in an isolated child.
"""
import os, re, signal, subprocess
import vlib

PROPS_MODULE = "Q1t.Props.C19"
DRIVER = "drv_c19"
BIN = "c19"
REQUIRED = [
    "result_free_exact", "dealloc_wrong_layout_faults", "result_free_twice_faults", "conformant_free_never_faults",
    "heap_balanced", "heap_accounted", "gate_table_documented", "cond_table_documented", "kelvin_safe",
    "sigs_agree", "layouts_agree", "result_codes_agree", "source_shape_as_modelled",
    "ffi_mirrors", "ffi_error_iff", "ffi_null_handle", "ffi_param_live",
]
RULE = ("call histories through the real extern \"C\" functions under a logging global allocator, with the equivalent Rust "
        "calls on a twin Circuit: create 1-2 circuits (0-4 qubits, 0-4 or 60-71 classical bits); gates by name in mixed case "
        "with direct and pointer-valued parameters; unknown / non-UTF-8 / Kelvin-sign names; wrong parameter counts; wrong "
        "arities; duplicated and out-of-range qubits; NULL handle / index / parameter pointers; conditional gates; "
        "measure/peek in x,y,z and invalid bases; measure_all/peek_all; reset; execute (also 0 shots) / reexecute; "
        "cstate / histogram / open_qasm / c_qasm / latex; pokes of the referenced doubles between runs; results freed in a "
        "generated order (some histories leave results or circuits unfreed on purpose); circuit_free. "
        "Non-trivial = a history in which at least one result owning heap blocks is returned; distinct = distinct request line.")


def run_child(ctx, outdir, first, count, timeout=1800):
    exe = os.path.join(vlib.CARGO_TARGET, "debug", BIN)
    os.makedirs(outdir, exist_ok=True)
    try:
        p = subprocess.run([exe, outdir, "run", str(first), str(count)], cwd=vlib.ROOT, env=vlib.env_base(ctx),
                           stdout=subprocess.PIPE, stderr=subprocess.PIPE, timeout=timeout)
        return p.returncode, p.stderr.decode("utf-8", "replace")
    except subprocess.TimeoutExpired:
        return 124, "TIMEOUT"


def run_range(ctx, tag, first, count, aborts, depth=0):
    """Returns (reqs, impls) for cases first..first+count, skipping (and recording) cases that kill the child."""
    if count <= 0:
        return [], []
    outdir = os.path.join(ctx.rundir, "b_%s" % tag)
    rc, err = run_child(ctx, outdir, first, count)
    if rc == 0:
        return vlib.read_lines(os.path.join(outdir, "req.txt")), vlib.read_lines(os.path.join(outdir, "impl.txt"))
    prog = ""
    try:
        prog = open(os.path.join(outdir, "progress.txt")).read().strip()
    except OSError:
        pass
    if not prog.isdigit() or depth > 40:
        aborts.append({"case": None, "rc": rc, "detail": err[-400:], "range": [first, count]})
        return [], []
    bad = int(prog)
    aborts.append({"case": bad, "rc": rc, "detail": err[-300:]})
    ctx.note("harness child died (rc=%d) in case %d; bisecting around it" % (rc, bad))
    r1, i1 = run_range(ctx, tag + "a", first, bad - first, aborts, depth + 1)
    r2, i2 = run_range(ctx, tag + "b", bad + 1, first + count - bad - 1, aborts, depth + 1)
    return r1 + r2, i1 + i2


def canon_model(line):
    """the model names the class of a predicted abort, the harness only knows that it did not execute the call"""
    return " ; ".join(re.sub(r"^abort (?!unpredicted).*$", "abort", x) for x in line.split(" ; "))


def classify(cls):
    return cls.split(":")[0] + (":" + cls.split(":")[1] if cls.startswith("abort:") else "")


def isolate(ctx, case_id, call_idx):
    exe = os.path.join(vlib.CARGO_TARGET, "debug", BIN)
    d = os.path.join(ctx.rundir, "iso")
    os.makedirs(d, exist_ok=True)
    try:
        p = subprocess.run([exe, d, "isolate", str(case_id), str(call_idx)], cwd=vlib.ROOT, env=vlib.env_base(ctx),
                           stdout=subprocess.PIPE, stderr=subprocess.PIPE, timeout=120)
    except subprocess.TimeoutExpired:
        return "timeout"
    if p.returncode in (-signal.SIGABRT, 134):
        return "aborted"
    if b"SURVIVED" in p.stdout:
        return "survived"
    return "rc=%d" % p.returncode


def run(ctx):
    vlib.translate(ctx, ["FfiTables", "FfiSigs"])
    proof_ok = vlib.prove(ctx, PROPS_MODULE, [DRIVER], REQUIRED)
    reqs = impl = model = []
    if not vlib.cargo_build(ctx, BIN):
        return
    total = 40000 if ctx.thorough else 4000
    batch = 2000 if ctx.thorough else 1000
    aborts = []
    reqs, impl = [], []
    for k in range(0, total, batch):
        r, i = run_range(ctx, str(k // batch), k, min(batch, total - k), aborts)
        reqs += r
        impl += i
    ctx.oblige("harness children: no call history kills the process (every abort across extern \"C\" is predicted and skipped)",
               not aborts, "; ".join("case %s rc=%s %s" % (a.get("case"), a.get("rc"), a.get("detail", "")[-120:]) for a in aborts[:3]))
    for a in aborts[:3]:
        vlib.violation(ctx, {"summary": "a call history aborts the process through the C interface and the model did not predict it "
                                        "(C19: failures must be reported as error results)",
                             "input": "case %s (VERIF_SEED=%d): C19_TRACE=1 %s <dir> show %s" % (a.get("case"), ctx.seed, BIN, a.get("case")),
                             "observed": "child exit code %s" % a.get("rc"), "expected": "RESULT_ERROR", "seed": ctx.seed, "tier": ctx.tier,
                             "broken": ["correspondence (A): abort prediction"]})
    ctx.oblige("harness produced cases", len(reqs) > 0 and len(reqs) == len(impl), "%d/%d" % (len(reqs), len(impl)))
    reqf, implf, modelf = (os.path.join(ctx.rundir, n) for n in ("req.txt", "impl.txt", "model.txt"))
    with open(reqf, "w") as f:
        f.write("".join(l + "\n" for l in reqs))
    with open(implf, "w") as f:
        f.write("".join(l + "\n" for l in impl))
    # ---------------------------------------------------------------- (A)
    a_bad = []
    rc = vlib.run_driver(ctx, DRIVER, reqf, modelf, args=["model"])
    model = vlib.read_lines(modelf) if rc == 0 else []
    a_bad = vlib.compare(reqs, impl, [canon_model(m) for m in model])
    def first_diff(r, a, b):
        aa, bb, rr = a.split(" ; "), b.split(" ; "), r.split(" ; ")
        for k, (x, y) in enumerate(zip(aa, bb)):
            if x != y:
                return "%s call %d `%s` impl=`%s` model=`%s`" % (rr[0], k, (rr[k + 1] if k + 1 < len(rr) else "?")[:160], x[:200], y[:200])
        return "%s answer counts %d/%d" % (rr[0], len(aa), len(bb))
    ctx.oblige("correspondence (A): extern \"C\" answers, owned blocks, frees and final balance = Lean model of ffi.rs on %d histories" % len(reqs),
               rc == 0 and not a_bad, "; ".join(first_diff(r, a, b) if i >= 0 else "%s %s %s" % (r, a, b) for i, r, a, b in a_bad[:3]))
    # ---------------------------------------------------------------- (B)
    b_fail = vlib.spec_via_driver(DRIVER)(ctx, reqs, impl)
    known = {}
    for f in vlib.load_known(ctx.pid):
        if f.get("status") == "open":
            known[f.get("class")] = f
    a_bad_idx = set(i for i, *_ in a_bad)
    new_fail, by_class = [], {}
    for fl in b_fail:
        cls = classify(fl["class"])
        by_class.setdefault(cls, []).append(fl)
        if cls in known and fl["index"] not in a_bad_idx:
            vlib.report_known(ctx, known[cls])
        else:
            new_fail.append(fl)
    ctx.oblige("property evaluated directly (B) on the implementation's outputs: no failure outside known findings",
               not new_fail, "; ".join("%s: %s" % (f["req"].split(" ; ")[0], f["why"][:160]) for f in new_fail[:3]))
    seen_cls = set()
    for fl in sorted(new_fail, key=lambda f: len(f["req"])):
        cls = classify(fl["class"])
        if cls in seen_cls:
            continue
        seen_cls.add(cls)
        vlib.violation(ctx, {"summary": "C19 fails on the implementation for this call history (class %s)" % cls,
                             "input": fl["req"], "observed": fl["impl"], "why": fl["why"], "class": cls,
                             "seed": ctx.seed, "tier": ctx.tier, "broken": [n for n, _ in vlib.failed_obligations(ctx)],
                             "replay_cmd": "python3 tools/check.py C19 --replay <this file>"})
    # ---------------------------------------------------------------- confirm the predicted aborts in isolated children
    confirm = {}
    per_class = 4 if ctx.thorough else 2
    for cls, fls in sorted(by_class.items()):
        if not cls.startswith("abort:"):
            continue
        res = []
        for fl in fls[:per_class]:
            m = re.search(r"call=(\d+)", fl["why"])
            cid = int(fl["req"].split(" ")[1])
            res.append((cid, int(m.group(1)), isolate(ctx, cid, int(m.group(1)))))
        confirm[cls] = res
    not_confirmed = [(c, r) for c, rs in confirm.items() for r in rs if r[2] != "aborted"]
    ctx.oblige("every predicted abort class really aborts the process when executed through the C interface in an isolated child (%d witnesses)"
               % sum(len(v) for v in confirm.values()), not not_confirmed, str(not_confirmed[:4]))
    # ---------------------------------------------------------------- coverage
    kinds, calls, ncalls = {}, {}, 0
    for r in reqs:
        segs = r.split(" ; ")
        k = segs[0].split(" ")[2]
        kinds[k] = kinds.get(k, 0) + 1
        for s in segs[1:]:
            c = s.split(" ", 1)[0]
            calls[c] = calls.get(c, 0) + 1
            ncalls += 1
    outcomes = {}
    for a in impl:
        for s in a.split(" ; "):
            w = s.split(" ")
            key = " ".join(w[:2]) if w[0] == "res" else w[0].split("=")[0]
            outcomes[key] = outcomes.get(key, 0) + 1
    distinct = set(r for r in reqs if r.startswith("live") or (len(r.split(" ")) > 5 and r.split(" ")[5] == "1"))
    ctx.coverage.update({
        "evaluations": ncalls, "histories": len(reqs), "distinct_nontrivial": len(distinct), "rule": RULE,
        "case_kinds": kinds, "call_kinds": calls, "impl_outcomes": outcomes,
        "A_mismatches": len(a_bad), "B_failures": len(b_fail), "B_failures_unlisted": len(new_fail),
        "B_failure_classes": {c: len(v) for c, v in by_class.items()},
        "abort_confirmations": {c: ["case %d call %d: %s" % r for r in rs] for c, rs in confirm.items()},
        "unpredicted_aborts": len(aborts),
        "samples": [{"req": reqs[i][:600], "impl": impl[i][:600]} for i in sorted(set([0, len(reqs) // 2, len(reqs) - 1])) if 0 <= i < len(reqs)],
        "exhaustive": False,
    })
    ctx.assumptions += [
        "partial: the allocator itself and unwinding/abort behaviour across extern \"C\" are observed by the harness, not modelled",
        "partial: blocks allocated inside q1tsim proper (the Circuit's own vectors, boxes, states) are not predicted by the model; the harness only checks that circuit_free releases all of them and that read-only entry points allocate nothing but the result",
        "Circuit is an abstract API in the theorems (every method returns ok/err/panic); the abort predictors are conservative (may-abort) and tied to the code only by the correspondence run",
        "str::to_lowercase is modelled by ASCII lower-casing (equivalent on these tables: no gate name contains 'k', the only ASCII letter that a non-ASCII character lowercases to)",
        "cond_table_documented compares every column but the count printed in the wrong-parameter-count message (pinned tree: 1 for conditional u2/u3); message wording is not part of the property",
        "NULL circuit handles to circuit_nr_qbits / circuit_nr_cbits / circuit_cstate (assert! -> abort) are outside the property (valid handles) and are not generated; the model predicts them (ffi_null_handle)",
        "const qualifiers are ignored when Rust and cdef struct fields are compared (layouts_agree); function signatures agree including const",
    ]
    return proof_ok


def replay_input(ctx, rp):
    import json
    print("replay: regenerating the recorded history and re-running model and spec on it")
    vlib.translate(ctx, ["FfiTables", "FfiSigs"])
    vlib.lake_build(ctx, [DRIVER])
    if not vlib.cargo_build(ctx, BIN):
        return 1
    line = rp.get("input", "")
    m = re.match(r"case (\d+) ", line)
    if not m:
        print("no case id in replay")
        return 1
    cid = int(m.group(1))
    ctx.seed = int(rp.get("seed", ctx.seed))
    reqs, impl = run_range(ctx, "replay", cid, 1, [])
    if not reqs:
        print("the history kills the process")
        return 1
    fails = vlib.spec_via_driver(DRIVER)(ctx, reqs, impl)
    for f in fails:
        print("STILL FAILS:", f["why"])
    return 1 if fails else 0

"""C17 — permutation utilities form a consistent algebra."""
import vlib

PROPS_MODULE = "Q1t.Props.C17"

SPEC = {
    "tables": [],
    "props_module": PROPS_MODULE,
    "required": ["new_ok_iff_bijection", "new_error_cases", "into_spec", "inverse_spec", "inverse_inverse",
                 "apply_inverse_undoes", "inPlace_eq_into", "matrix_mulVec", "transform_spec"],
    "drivers": ["drv_c17"],
    "harness_bin": "c17",
    "spec_check": vlib.spec_via_driver("drv_c17"),
    "nontrivial": lambda r, a: not (r.startswith("new") or r.startswith("x")) or (r.startswith("new") and a.startswith("ok")),
    "rule": "all n^n index vectors for n<=5 (quick) / n<=6 (thorough) through Permutation::new, and for every accepted one "
            "inverse/apply_vec_into/apply_inverse_vec_into/apply_vec_in_place/matrix/matrix.dot/transform on a random integer payload; "
            "every operation again on the objects obtained by 1, 2 and 3 calls of inverse() (object histories: an inverse of an inverse must be the original, also through apply/matrix/transform); "
            "transform on column-major and transposed-memory-order matrices, apply_vec_into / apply_inverse_vec_into on strided, reversed and column views (answers must not depend on the memory layout); "
            "apply_vec_in_place on OWNED non-contiguous Array1 values (stride 2 from slice_move, stride 3 from slice_collapse, inverted axis), also on the derived objects; "
            "boundary VALUES in `new` (usize::MAX, usize::MAX-1, 2^63, 2^63-1, 2^32, 2^32-1, n, n+1 as decimal text; the model works over Nat) at every "
            "position of every list of length <= 4 over 0..len, at two positions for a fifth of them, and in the random longer lists; "
            "plus random index vectors up to length 64 with injected out-of-range and repeated elements. "
            "STRUCTURED permutations for every n in 1..40 and n = 48, 64, 65, 100, 129 (thorough: every n <= 64, some up to 257): identity, "
            "reversal, rotation by every k (divisors and non-divisors of n alike; for n > 40 a selection), block moves with block sizes 2..16 "
            "whether or not the block size divides n (adjacent blocks swapped pairwise, first two blocks swapped + shuffled tail, whole blocks "
            "in random order + shuffled remainder, first and last block swapped), fixed prefix + shuffled tail and shuffled prefix + fixed tail "
            "at many cut points, products of disjoint cycles of chosen lengths (all-l for l = 2..7, one l-cycle, n, n-1+1, k+(n-k), 1+2+3+..., "
            "random types; on consecutive and on shuffled labels), perfect out-/in-shuffles for even n, bit reversal, bit rotations, X-on-one-bit "
            "and CX-like index maps for powers of two, and their inverses (explicitly for n <= 12; for every n through the derived-object "
            "requests with an odd number of inverse() calls) - each through inverse, apply_vec_into, apply_inverse_vec_into, apply_vec_in_place, "
            "matrix.dot, the strided/reversed/column views and the derived objects (pairwise distinct non-zero payload, so an unwritten or "
            "doubly written element shows), and a sample of them through matrix/transform in all layouts. "
            "FAULT INJECTION: for 60 (thorough: 300) permutations (rotations, reversals, partial and full shuffles, n = 1..40) mis-sized calls - "
            "apply_vec_in_place on vectors of length 0, 1, n/2, n-2, n-1, n+1, n+3, 2n+1, and a sample of apply_vec_into / apply_inverse_vec_into "
            "with mis-sized source and/or destination and transform on mis-shaped matrices - under catch_unwind on a fresh thread; the outcome "
            "(panic, or the buffer afterwards) is predicted by the model (A) and skipped by (B) (outside the quantifier); then, for each such call, "
            "every normal operation (all of the above incl. derived objects and layouts) on a DIFFERENT permutation object, each on a fresh "
            "thread immediately after a repetition of the mis-sized call (request `@after <mis-sized call> @ <request>`: the line is the whole "
            "history of its thread), compared with model (A) and reference (B), both of which ignore the history. "
            "LONG HISTORIES of Permutation::new on one thread (rejected calls included): (1) self-contained, on a fresh thread per request: "
            "new(big), then c = 253, 254, 255, 256, 509, 510, 764 (thorough: 19 counts up to 1275) calls cycling through a few small lists "
            "(one size or mixed sizes; valid, repeated element, out of range), then `new` of a valid permutation reaching beyond the small ones "
            "and every vector operation on it (request `@after newhist <big> | <c> | <l1> , <l2> ... @ <request>`); (2) sessions: one thread "
            "answering 254, 255, 256, 510, 511 and two random 200..1200 (thorough: up to 2000) consecutive requests - a few valid ones first, then "
            "calls from a small pool of same-size lists (mostly rejected early, so most positions stay untouched for hundreds of calls) or of "
            "smaller mixed sizes with a valid intermediate one now and then, then late valid ones with new and all vector operations - every "
            "answer compared (request `@seq <session> <k> @ <request>`: the history is the k preceding lines of the session). "
            "Non-trivial = operation on an accepted permutation with inputs of matching size, or an accepted `new`; distinct = distinct request line.",
    "exhaustive": False,
}


def run(ctx):
    vlib.standard_flow(ctx, SPEC)
    ctx.assumptions += [
        "ndarray indexing/select/dot behave as array access (modelled as list access)",
        "payloads are integers in the correspondence run; the theorems are for an arbitrary payload type",
    ]

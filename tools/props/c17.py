"""C17 — permutation utilities form a consistent algebra."""
import vlib

PROPS_MODULE = "Q1t.Props.C17"

SPEC = {
    "tables": [],
    "props_module": PROPS_MODULE,
    "required": ["new_ok_iff_bijection", "new_error_cases", "into_spec", "inverse_spec", "inverse_inverse",
                 "apply_inverse_undoes", "inPlace_eq_into", "matrix_mulVec", "transform_spec"],
    "drivers": ["drv_c17"],
    "harness_bin": "c17",
    "spec_check": vlib.spec_via_driver("drv_c17"),
    "nontrivial": lambda r, a: not r.startswith("new") or a.startswith("ok"),
    "rule": "all n^n index vectors for n<=5 (quick) / n<=6 (thorough) through Permutation::new, and for every accepted one "
            "inverse/apply_vec_into/apply_inverse_vec_into/apply_vec_in_place/matrix/matrix.dot/transform on a random integer payload; "
            "every operation again on the objects obtained by 1, 2 and 3 calls of inverse() (object histories: an inverse of an inverse must be the original, also through apply/matrix/transform); "
            "transform on column-major and transposed-memory-order matrices, apply_vec_into / apply_inverse_vec_into on strided, reversed and column views (answers must not depend on the memory layout); "
            "plus random index vectors up to length 64 with injected out-of-range and repeated elements. "
            "Non-trivial = operation on an accepted permutation, or an accepted `new`; distinct = distinct request line.",
    "exhaustive": False,
}


def run(ctx):
    vlib.standard_flow(ctx, SPEC)
    ctx.assumptions += [
        "ndarray indexing/select/dot behave as array access (modelled as list access)",
        "payloads are integers in the correspondence run; the theorems are for an arbitrary payload type",
    ]

"""C14 — arithmetic expressions evaluate to their conventional value."""
import re
import vlib

PROPS_MODULE = "Q1t.Props.C14"

_VAL = re.compile(r"^(ok .* \| \S+ \| val )([0-9a-f]{16})$")


def _is_nan(b):
    return (b & 0x7FF0000000000000) == 0x7FF0000000000000 and (b & 0x000FFFFFFFFFFFFF) != 0


def _ord(b):
    return -(b & 0x7FFFFFFFFFFFFFFF) if b >> 63 else b


def eq(req, a, b):
    """(A): AST (with literal bits), remainder and error payloads exactly; the value bit-exactly when the
    expression uses only + - * / and unary minus, within 2 ulp when it uses sin cos tan exp ln sqrt ^;
    every NaN equals every NaN (Lean's Float.toBits canonicalises the NaN payload/sign)."""
    if a == b:
        return True
    ma, mb = _VAL.match(a), _VAL.match(b)
    if not (ma and mb) or ma.group(1) != mb.group(1):
        return False
    x, y = int(ma.group(2), 16), int(mb.group(2), 16)
    if _is_nan(x) and _is_nan(y):
        return True
    if _is_nan(x) or _is_nan(y):
        return False
    inexact = ("fn:" in a) or ("(^ " in a)
    return inexact and abs(_ord(x) - _ord(y)) <= 2


KNOWN_CLASSES = {
    "int-literal-overflow": "C14-int-literal-overflow",
}

SPEC = {
    "tables": ["ExprPatterns"],
    "props_module": PROPS_MODULE,
    "required": ["patterns_as_modelled", "parse_total", "parse_consumes", "parse_never_panics",
                 "parse_error_cannot_start", "parse_error_unclosed", "parse_error_dangling", "parse_error_signed_exponent",
                 "parse_cst_partial", "parse_cst_ieee_partial", "parse_render_partial", "literal_bits_agree", "parsed_eval_ok", "int_literal_overflow_rejected", "signed_exponent_witness"],
    "drivers": ["drv_c14"],
    "harness_bin": "c14",
    "eq": eq,
    "spec_check": vlib.spec_via_driver("drv_c14"),
    "classify": lambda fl: KNOWN_CLASSES.get(fl.get("class")),
    "nontrivial": lambda r, a: r.startswith("g ") or r.startswith("m ") or r.startswith("@after "),
    "rule": "fixed corpus of ~80 edge strings; grammar-generated concrete syntax trees (depth 1..6, conventional minimal "
            "parentheses plus random redundant ones, random Unicode-blank layout, literals of all admitted shapes incl. rounding "
            "edge cases, u64-boundary integers, inf/subnormal/zero exponents, pi; random non-continuing remainder); two deep "
            "nestings (20, 60); large whole exponents (3 .. 2^31-2, 2^31-1, 2^31, 2^31+1, 2^32-1, 2^32, 2^32+1, 1e10, 1e11, 2^53+1, 2^64-1, 1e300, and their negatives) "
            "on bases 0-1, -1, 1+1e-10, 1-1e-10, 0.999999, 1.0000001, 2, 0.5, -1.0000000001, 1, -2 (size and parity of the exponent matter); malformed-by-construction strings (cannot start / dangling operator / unclosed parenthesis) with "
            "the expected error constructor and payload; mutated renderings and token-soup garbage incl. non-White_Space Unicode. "
            "HISTORIES (error path followed by normal use on one thread): batches of 50, 250 and 1000 (thorough: also 199, 200, 5000) "
            "failing parses on a fresh thread (quick: 5 batches of 50, 3 of 250, 1 of 1000), cycling through failing texts of one kind or of all kinds - dangling operator inside an open "
            "parenthesis `(1 +`, `1 + (2 ^ )`; text that cannot start an expression inside a parenthesis `(x)`, `()`, `(2 * )`; several "
            "parentheses open at the failure `((2*`, `((((`; function-call parentheses `sin(`, `cos(1 +` and unclosed `(1+2` - each batch "
            "followed on the same thread by 10 valid texts containing parentheses (`( e )`, `(1+2)*3`, `1/(e - 2)`, `sqrt(3*3+(e-4)^2)`, "
            "`-((e))`, generated, with layout and remainder), request `@after <n> <failing texts> @ g ...`; one thread per batch, so the first valid text has exactly the "
            "stated history and the j-th one additionally the j-1 successful parses before it; the failing texts themselves once each as `x`. "
            "Model and reference are functions of the text alone, so a result that depends on the history is an (A) mismatch and a (B) "
            "failure. Parenthesis nesting never exceeds 60 (quantifier: up to a nesting depth; none above 150 is generated). "
            "(A) compares AST with literal bits, remainder, error payload exactly and the value (exact for + - * / neg, 2 ulp "
            "otherwise).  (B) checks flatten(Cst)=text, conventional value of the Cst's AST, remainder, error kind+payload. "
            "Non-trivial = a grammar-generated or constructed-malformed case; distinct = distinct request line.",
    "exhaustive": False,
}


def run(ctx):
    vlib.standard_flow(ctx, SPEC)
    ctx.assumptions += [
        "the regex crate implements leftmost-first matching of the eight anchored patterns as re-implemented by hand in Model/Expr.lean "
        "(the pattern strings themselves are re-extracted from src/expression.rs on every run and compared with the modelled ones)",
        "str::parse::<f64> and `u64 as f64` are correctly rounded (model: exact rational arithmetic, round-to-nearest-even; agreement is checked bitwise on every generated literal)",
        "libm sin/cos/tan/exp/log/pow as linked into the Lean driver agree with Rust's f64 methods within 2 ulp (checked, not proved)",
        "stack exhaustion on very deep nesting is outside the quantifier (nesting depth <= 60 exercised)",
    ]


def replay_input(ctx, rp):
    """Re-run one recorded request line through the implementation, the model (A) and the property (B)."""
    import os
    req = rp["input"]
    if not vlib.cargo_build(ctx, "c14"):
        return 1
    with vlib.Lock("build"):
        vlib.sh(["lake", "build", "drv_c14"], cwd=vlib.LEAN)
    rc, out = vlib.run_harness(ctx, "c14", ["replay", req])
    reqf, implf, modelf = (os.path.join(ctx.rundir, n) for n in ("req.txt", "impl.txt", "model.txt"))
    reqs, impl = vlib.read_lines(reqf), vlib.read_lines(implf)
    vlib.run_driver(ctx, "drv_c14", reqf, modelf, args=["model"])
    model = vlib.read_lines(modelf)
    fails = vlib.spec_via_driver("drv_c14")(ctx, reqs, impl)
    print("request:        %s\nimplementation: %s\nmodel:          %s" % (req, impl[0], model[0] if model else "?"))
    a_ok = bool(model) and eq(req, impl[0], model[0])
    print("(A) implementation = model: %s" % a_ok)
    print("(B) property on the implementation's answer: %s" % (fails[0]["why"] if fails else "ok"))
    return 0 if (a_ok and not fails) else 1

"""C07 — conditional gates act on exactly the shots whose control bits match."""
import vlib

PROPS_MODULE = "Q1t.Props.C07"

DEFECT_CLASSES = {
    "D9-zero-shots-panic": "D9-zero-shots-panic",
}


def canon(line):
    return " ".join(line.split())


def _expand(counts, xs):
    out = []
    for c, x in zip(counts, xs):
        out += [x] * int(c)
    return out


_hexeq = vlib.hexfloat_eq(1e-9)


def eq(req, a, b):
    """(A): exact text, except the amplitude vectors of `cstep` answers (IEEE bit patterns, compared to 1e-9)"""
    return _hexeq(req, a, b) if req.startswith("cstep ") else a == b


def nontrivial(req, ans):
    k = req.split(" ", 1)[0]
    if k == "cstep" and ans.startswith("ok"):
        # some shots matched and some did not: the number of ranges changed, or the states did
        try:
            return req.split(" | ")[2] != ans.split(" | ")[1]
        except Exception:
            return False
    if k in ("ffisame", "ffierr"):
        return True
    if k == "ranges":
        return ans.startswith("ok") and len(ans.split()) > 4      # at least two pieces
    if k in ("condrun", "condrun2") and ans.startswith("ok"):
        # the gate reached some shots and left others alone
        try:
            seg = [s.split() for s in req.split("|")]
            aseg = [s.split() for s in ans.split("|")]
            before = _expand(seg[1][1:], seg[2][1:])
            after = _expand(aseg[0][2:], aseg[1][1:])
            ch = [a != b for a, b in zip(before, after)]
            return any(ch) and not all(ch)
        except Exception:
            return False
    return False


SPEC = {
    "tables": [],
    "props_module": PROPS_MODULE,
    "required": ["control_word_bit", "control_word_panics_iff", "control_word_empty", "conditional_histogram_order",
                 "ranges_partition", "rle_is_maximal_runs", "zero_shots_panics",
                 "conditional_per_shot_mask", "conditional_per_shot"],
    "drivers": ["drv_c07"],
    "harness_bin": "c07",
    "canon": canon,
    "eq": eq,
    "spec_check": vlib.spec_via_driver("drv_c07"),
    "classify": lambda fl: DEFECT_CLASSES.get(fl.get("class")),
    "nontrivial": nontrivial,
    "rule": "q1tsim::qustate::collect_conditional_ranges on ALL (counts, mask) with <= 7 shots (8 thorough): every composition of the "
            "shot count into positive ranges x every mask; plus random layouts up to 67 shots, zero counts and mis-sized masks; "
            "real Circuits on both representations (execute_with vector/stabilizer, 1-4 qubits, registers up to 64 bits, 1-12 shots "
            "(24 thorough), every 50th with 0 shots): H/X/measure/measure_all preparation giving per-shot different registers and basis "
            "states, then add_conditional_gate(control, target, X|Y|Z|CX|Swap|CCX, bits) with generated control lists (subset, order, "
            "repeats, empty, full register) and targets (mostly the control word of an existing shot), then measure_all; the situation "
            "before/after the conditional gate is read from the execution trace hook (counts, decoded basis state and raw text of "
            "every range, register); the register of a request is the traced register restricted to the bits written so far in THIS run (a run "
            "starts from a zeroed register). Gates also: Kron(X,CX)/Kron(CX,X) and USER-DEFINED gates that provide only matrix() (cyclic "
            "increments on 2/3/4 qubits, non-symmetric basis permutations, default kernels of the Gate trait), bare and inside "
            "C/Kron/Composite/Loop (vector backend). EXECUTED AGAIN ON THE SAME OBJECT (`condrun2`): every 5th circuit, and 800 (4000 thorough) "
            "feedback circuits (X preparation, a conditional gate that reads bits BEFORE the measurement that writes them in this run, H + "
            "measure_all into exactly those bits, second conditional gate, measure_all), are executed once with another seed (same shot "
            "count, now and then the other representation) and then again on the same Circuit object; the requests come from the trace of the "
            "SECOND run. STATE-VECTOR requests (`cstep`: full snapshot and register before/after one conditional operation; (A) the Lean "
            "simulator model executes the operation, (B) per shot the reference semantics: gate matrix with the CURRENT parameter values on "
            "matching shots up to a global phase, other shots exactly untouched): 600 (3000) circuits whose conditional gates hold "
            "REFERENCE-valued parameters (Rc<RefCell<f64>> and raw pointers; RX RY RZ U1 U2 U3 with every direct/reference mix, CRX CRY CRZ CU1 "
            "CCRX CCRY CCRZ, bare and inside C/Kron/Composite/Loop), cells overwritten between construction and the first run and before "
            "every later run (execute / reexecute / execute again on the same object); 500 (2500) circuits BUILT THROUGH THE C INTERFACE "
            "(circuit_add_conditional_gate for EVERY gate name of its table, parameters by value or by pointer overwritten afterwards, a "
            "measured coin so that some shots match and some do not): cstep on the traced run, the trace must equal that of the same circuit "
            "built through the Rust API (`ffisame`), and a control list with an out-of-range bit must be refused by both (`ffierr`). "
            "The driver also runs the lead's Q1t.Model.Sim.collectConditionalRanges on every ranges request "
            "and answers 'two-lean-models-disagree' on any difference. "
            "Non-trivial = ranges answer with >= 2 pieces, or circuit where the gate changed some shots' states and not others; "
            "distinct = distinct request line.",
    "exhaustive": False,
}


def run(ctx):
    vlib.standard_flow(ctx, SPEC)
    ctx.assumptions += [
        "the state type and the gate action are parameters of the model (what a gate does to a column/tableau is C04/C06); at "
        "circuit level the correspondence uses basis states and the basis-state action of X, Y, Z, S, CX, Swap, CCX, Kron(X,CX), Kron(CX,X) and "
        "of the harness's user-defined cyclic increments (bare and inside C/Kron/Composite/Loop)",
        "u64 shifts by >= 64 panic (overflow checks on, as in the harness build); in a release build they wrap",
        "layouts with all counts positive (an invariant of both backends for N > 0); N = 0 leaves counts = [0] and panics (D9)",
    ]

"""C03 — stabilizer tableau semantics equal state-vector semantics."""
import os, subprocess
import vlib

PROPS_MODULE = "Q1t.Props.C03"

# class tag printed by `drv_c03 spec` -> id of the finding in known_findings.json
KNOWN_CLASSES = {
    "reset-entangled-forced-zero": "D4-stab-reset-forced",
    "peek-all-impossible-outcome": "D5-stab-peek-all-independent",
}

REQUIRED = [
    # generated tables
    "phase_table_correct", "conj_tables_as_expected",
    # general (all n)
    "pauli_mul_act", "commute_dichotomy", "multiply_row_spec", "multiply_row_panics_iff_anticommute",
    "multiply_row_no_assert_of_stabilizes", "row_ops_preserve_group", "normalize_sound",
    "measure_deterministic_sound_partial", "bits_get_set", "bits_sign_get_set",
    # the tableau contract (all n, any commutative ring with LawfulAmp)
    "pauli_matrix_action", "normalize_preserves_stabilized", "apply_gate_stabilizes", "measure_random_sound",
    "collapse_sound", "deterministic_of_zrow", "reachable_sound", "tableau_contract_partial",
    "detshape_core_no_anticentral", "stabHyps_partial",
    # DetShapeHolds discharged: hypothesis-free forms
    "det_shape_holds", "tableau_contract", "reachable_sound_generated", "measure_deterministic_sound",
    "stabHyps_generated",
    # equal states => identical tableau, all n
    "reachable_canonical", "equal_states_identical_tableau", "history_independent",
    # finite, kernel-checked (n <= 2)
    "enum_card", "enum_is_closure", "exhaustive_gates_n2", "exhaustive_measure_n2", "exhaustive_reset_partial_n2",
    "exhaustive_canonical_n2", "equal_states_identical_tableau_n2", "history_independent_n2",
    # negative witnesses
    "neg_reset_entangled_forced_zero", "neg_peek_all_independent",
]


def eq(req, a, b):
    """(A): identical lines, except where the implementation drew random numbers: the model answers
    `any <alternatives>` and the implementation's answer must be one of them (peekall: the set of observed
    words must be a subset of the words the model can produce; smeasure: one of the `|`-separated outcomes)."""
    if a == b:
        return True
    k0 = req.split(" ", 1)[0]
    if k0 == "auto":
        # (A) compares Circuit::is_stabilizer_circuit() with the model's conjunction; the run results are judged by (B)
        return a.split(" ")[:2] == b.split(" ")[:2]
    if k0 in ("hist", "hist2"):
        return b == "any"
    if b.startswith("any "):
        k = req.split(" ", 1)[0]
        if k == "peekall" and a.startswith("obs "):
            return set(a.split()[1:]) <= set(b.split()[1:])
        if k in ("smeasure", "minto", "minto2"):
            return a in [x.strip() for x in b[4:].split("|")]
    return False


def spec_parallel(drv, jobs=4):
    """(B) through `drv_c03 spec`, the input split into `jobs` contiguous chunks run concurrently
    (exact vectors over Z[zeta_8] make the 5..8-qubit cases slow)."""
    def check(ctx, reqs, impl):
        exe = os.path.join(vlib.LEAN, ".lake", "build", "bin", drv)
        n = len(reqs)
        # interleave so that the expensive wide cases at the end are spread over all chunks
        parts = [list(range(k, n, jobs)) for k in range(jobs)]
        procs = []
        for k, idx in enumerate(parts):
            inf = os.path.join(ctx.rundir, "spec_in_%d.txt" % k)
            outf = os.path.join(ctx.rundir, "spec_out_%d.txt" % k)
            with open(inf, "w") as f:
                for i in idx:
                    f.write(reqs[i] + "\t" + impl[i] + "\n")
            procs.append((idx, outf, subprocess.Popen([exe, "spec"], stdin=open(inf, "rb"), stdout=open(outf, "wb"),
                                                      stderr=subprocess.PIPE, cwd=vlib.ROOT)))
        fails, nskip, ok_run, total = [], 0, True, 0
        for idx, outf, p in procs:
            try:
                _, err = p.communicate(timeout=3000)
            except subprocess.TimeoutExpired:
                p.kill()
                err = b"TIMEOUT"
            out = vlib.read_lines(outf) if p.returncode == 0 else []
            if p.returncode != 0 or len(out) != len(idx):
                ok_run = False
                ctx.note("spec driver rc=%s lines=%d/%d %s" % (p.returncode, len(out), len(idx), err[-300:]))
            total += len(out)
            for i, o in zip(idx, out):
                if o == "ok":
                    continue
                if o == "skip":
                    nskip += 1
                    continue
                parts_ = o.split(" ", 2)
                fails.append({"index": i, "req": reqs[i], "impl": impl[i],
                              "class": parts_[1] if len(parts_) > 1 else "", "why": o})
        ctx.oblige("spec evaluation (B) ran on %d cases" % n, ok_run and total == n, "lines=%d" % total)
        ctx.coverage["B_evaluated"] = total - nskip
        ctx.coverage["B_fail_classes"] = {}
        for f in fails:
            ctx.coverage["B_fail_classes"][f["class"]] = ctx.coverage["B_fail_classes"].get(f["class"], 0) + 1
        fails.sort(key=lambda f: f["index"])
        return fails
    return check


def nontrivial(req, ans):
    k = req.split(" ", 1)[0]
    if k == "tgate":
        return True
    if k in ("conj", "isstab", "count", "new", "words"):
        return False
    # an operation that returned on a tableau with at least one non-diagonal generator, or any panic / error
    if not (ans.startswith("ok") or ans.startswith("det") or ans.startswith("rnd") or ans.startswith("obs") or ans[:1] in "01"):
        return True
    t = req.split(" ")[1] if " " in req else ""
    return any(c in t for c in "XY")


SPEC = {
    "tables": ["PhaseTable", "Conj"],
    "props_module": PROPS_MODULE,
    "required": REQUIRED,
    "drivers": ["drv_c03"],
    "harness_bin": "c03",
    "eq": eq,
    "spec_check": spec_parallel("drv_c03"),
    "classify": lambda fl: KNOWN_CLASSES.get(fl.get("class")),
    "nontrivial": nontrivial,
    "rule": "5 streams through the REAL StabilizerTableau / StabilizerState code: (1) conjugate() of all 39 library gates on all 4^k Pauli "
            "strings and wrong arities + is_stabilizer() (cross-checks Gen/Conj.lean); (2) EVERY tableau with n <= 2 (all 4^(n*n) cell "
            "fillings x 2^n signs, valid or not): swap_rows, multiply_row, normalize (verif hooks), every stabilizer gate at every "
            "placement incl. duplicated / mis-sized operands, measure, collapse of every row to both values, reset, packed words; "
            "(3) ALL stabilizer states for n <= 3 (quick; 6/60/1080) or n <= 4 (thorough; +36720), enumerated with the real apply_gate: "
            "13 gates x every ordered tuple of distinct qubits, measure, collapse after Random, reset, words, and the range-level users "
            "StabilizerState::peek_all_into (48 shots) and measure (1 shot); (4) 250/1500 random tableaux of 3..12 and 33..70 qubits "
            "(arbitrary cells and scrambled valid ones; packing across several u64 words); (5) 60/400 random Clifford circuits with "
            "measure+collapse and reset on 5..8 qubits and 1/6 on 65..68 qubits, step by step; (6) 44 Clifford-only COMBINATOR gates through "
            "the real apply_gate (Composite built with add_gate and with from_string, sub-gates on ascending / descending / non-adjacent "
            "operands, CX CY CZ Swap and all one-qubit gates, nesting depth 2; Kron in both factor orders and mixed arities, nested; Loop "
            "with 0..4 iterations) on every placement of every stabilizer state for n <= 2, of every state for n = 3 (arity <= 2 terms rotate "
            "over the states in quick), every 24th state for n = 4 (thorough); model side = tableau model driven by Model/Conj.lean "
            "conjugateT; measure followed by collapse with the index the code itself reported (mcollapse); (7) registers of 31,32,33,63,64,65,66,95,96,97,128 "
            "(+129 thorough) qubits built through the real API (X/Y/Z on marked qubits for signs, then H/S/CX/CZ so that normalize moves rows and "
            "their signs across the u64 word boundaries): every step, swap_rows / multiply_row across the boundaries, normalize of scrambled "
            "tableaux, packed words; (8) StabilizerState::measure_into on a register word that is all ones beforehand (a measured 0 must clear "
            "the bit), and measure; X; measure into the same bit (minto, minto2); (9) 500/3000 Circuits of 1..3 qubits (Clifford gates, measurements, "
            "resets, classically controlled Clifford AND non-Clifford gates, occasional plain non-Clifford gates) executed with "
            "execute_with_rng (automatic representation) and execute_with(vector) with the same seed; is_stabilizer_circuit() against the "
            "model's conjunction; (10) 60/400 StabilizerState histories: H q0, H q1, measure q0, measure q1, reset q0, then measure/peek q1 "
            "into a third bit, 8..24 shots; (11) WIDE combinator gates through apply_gate: Composites (parity check / fan-out of w-1 CX, H+S layers), "
            "a Loop of a CX chain and a w-fold Kron on w = 33, 34, 65 (+40, 64 thorough) operands, in forward / shifted / reversed placement, on "
            "tableaux with negative signs on the low qubits and rows that agree on the last 32 operands; (12) 80/400 StabilizerState histories "
            "with reset_all after a splitting measurement (also after two splits, and reset_all twice), then X(1) plainly or as a conditional "
            "gate on all shots, then measure / peek of qubit 1 and measure of qubit 0. (A) Display text / MeasurementInfo / "
            "panic site / error constructor equal the Lean model's; where the code draws random numbers the answer must be one the model "
            "allows. (B) for every request whose tableau describes a stabilizer state of <= 8 qubits (independent commuting rows; the "
            "exact state is computed over Z[zeta_8] by the projector method): the answer tableau must stabilize the exact state-vector "
            "result and be in reduced echelon form, det/rnd must match the block norms, peek_all words must have non-zero amplitude; for a combinator "
            "term the exact result is (Spec.specMatrix of the term over Q(zeta_8), Spec.embed on the placement) * state; for "
            "n > 8 (no state vector) the Pauli-group reference: the signed rows after swap / mul / normalize / gate must generate exactly the "
            "group of the rows before, conjugated symbolically by the gate's documented matrix (M P M^H = +-P' searched over Q(zeta_8)); "
            "minto/minto2: the stored bit must select a non-zero projection that the tableau stabilizes, other register bits untouched; auto: the two runs must end in the same result class "
            "(Ok / Err constructor) and, for deterministic circuits, the same register; hist: in every shot the q1 bit stored before the reset "
            "equals the read-out after it, and the tableaus owned by the shots carry the stored q1 values; wide tgate: the signed rows must generate "
            "the group obtained by conjugating the rows symbolically through the gate-by-gate expansion of the combinator (primitive matrices "
            "over Q(zeta_8)); hist2: after reset_all every shot reads 1 for the flipped qubit and 0 for the other, the counts sum to the number "
            "of shots; a panic of the code under test while "
            "the harness evolves a state is a failure (stream-panicked). "
            "Non-trivial = request on a tableau with an X or Y generator that returned, or any error/panic; distinct = distinct request line.",
    "exhaustive": False,
}


def run(ctx):
    if ctx.thorough:
        SPEC["spec_check"] = spec_parallel("drv_c03", jobs=8)
    vlib.standard_flow(ctx, SPEC)
    ctx.assumptions += [
        "FINITE (kernel-checked, n <= 2 only; theorems suffixed _n2): the enumeration is the closure of |0..0> under H, S, CX (6 and 60 "
        "states); agreement of every gate / measure / collapse / reset with the exact state-vector result, the deterministic/random "
        "classification, canonical form, and 'equal states => identical tableau' (incl. history independence) are proved for these "
        "states only.  n = 3 (1080 states) and n = 4 (36720, thorough) are covered by the compiled correspondence (A) + spec evaluation "
        "(B) on the real code, not by the kernel (a kernel check of n = 3 was measured at > 2 CPU-hours and is not run)",
        "exhaustive_reset_partial_n2: reset of a random qubit that is entangled with the rest is excluded (known finding D4-stab-reset-forced, "
        "witnessed by neg_reset_entangled_forced_zero)",
        "peek_all on correlated random qubits is excluded (known finding D5-stab-peek-all-independent, witnessed by neg_peek_all_independent)",
        "measure_deterministic_sound_partial: proved for all n only from the hypothesis that the reported row is exactly +-Z_q; that a canonical "
        "tableau without X/Y in column q has such a row, and that all other qubits are 50/50, is FINITE (n <= 2) + correspondence",
        "tableau_contract (all n, no hypothesis): Sim.TableauOK (C02's contract) holds for St := Reach with the generated tables over Q(zeta_8); "
        "DetShapeHolds is PROVED (det_shape_holds: reduced echelon shape of normalize + ghost destabilizers + a pigeonhole counting "
        "argument over ZMod 2); the *_partial theorems are kept as the relative forms",
        "stabHyps_generated still takes `hpos` (positivity of the squared norm over Q(zeta_8)) as a parameter: a property of the amplitude type",
        "equal_states_identical_tableau / history_independent are proved for ALL n (Canon = full post-condition of normalize, uniqueness "
        "of the reduced echelon basis, destabilizers); the _n2 versions are the older kernel-checked finite forms",
        "NOT proved: idempotence of normalize as a separate statement (it follows for reachable tableaux from uniqueness, not stated)",
        "u64 words are modelled as Nat (frame laws bits_get_set / bits_sign_get_set do not need the 64-bit bound); Vec<u64> indexing as list indexing; "
        "that the packed structure and the row model agree on whole tableaux is checked by (A) on the `words` requests (up to 70 qubits), not proved",
    ]

"""C01 — shot histograms are exact Born-rule samples of the circuit."""
import os, math
import vlib, stats

PROPS_MODULE = "Q1t.Props.C01"
# the key theorems of Q1t/Props/C01.lean (their absence fails the check)
REQUIRED = ["histogram_gf_unconditional", "histogram_gf_abstract", "prob0_eq_born", "exec_gf_partial", "histogram_gf_partial", "zero_prob_never_partial", "exec_total_partial", "hyps_arith_complex",
            "histogram_gf_example", "histogram_gf_example_measure_all", "histogram_gf_example_measure_all_X",
            "stab_histogram_gf_partial", "stab_exec_gf_partial", "backends_agree_partial", "stab_histogram_gf_example", "stab_histogram_gf_example_measure_all", "stab_histogram_gf_generated", "stab_histogram_gf_generated_unconditional",
            "final_peek_histogram_partial", "final_peek_unconditional", "single_peek_then_measure_not_multinomial", "peek_peek_not_multinomial", "measure_resetall_measure_not_multinomial",
            "stab_reset_bell_not_born", "stab_peekall_bell_zero_prob_value"]
ALARM_P = 1e-9


def parse_pairs(ans, keyconv=int, valconv=int):
    t = ans.split()
    if not t or t[0] != "ok":
        return None
    k = int(t[1])
    return {keyconv(t[2 + 2 * i]): valconv(t[3 + 2 * i]) for i in range(k)}


def driver_query(ctx, lines, tag):
    inf, outf = os.path.join(ctx.rundir, tag + "_in.txt"), os.path.join(ctx.rundir, tag + "_out.txt")
    with open(inf, "w") as f:
        f.write("\n".join(lines) + ("\n" if lines else ""))
    rc = vlib.run_driver(ctx, "drv_c01", inf, outf)
    out = vlib.read_lines(outf) if rc == 0 else []
    ctx.oblige("reference semantics evaluated by the Lean driver (%s, %d queries)" % (tag, len(lines)),
               rc == 0 and len(out) == len(lines), "rc=%d" % rc)
    return out


def multinomial2(born):
    """distribution of the sorted pair of two independent shots"""
    d = {}
    ks = sorted(born)
    for a in ks:
        for b in ks:
            key = "%d,%d" % (min(a, b), max(a, b))
            d[key] = d.get(key, 0.0) + born[a] * born[b]
    return d


def run(ctx):
    vlib.translate(ctx, ["PhaseTable", "Conj"])
    vlib.prove(ctx, PROPS_MODULE, ["drv_c01", "drv_c02"], REQUIRED)
    # (A) the trace correspondence of the simulator model (shared with C02)
    import props.c02 as c02
    sub = dict(c02.SPEC)
    if vlib.cargo_build(ctx, "c02"):
        rc, out = vlib.run_harness(ctx, "c02")
        ctx.oblige("trace harness run completes", rc == 0, out[-300:])
        if rc == 0:
            reqf, implf, modelf = (os.path.join(ctx.rundir, n) for n in ("req.txt", "impl.txt", "model.txt"))
            reqs, impl = vlib.read_lines(reqf), vlib.read_lines(implf)
            rc = vlib.run_driver(ctx, "drv_c02", reqf, modelf, args=["model"])
            model = vlib.read_lines(modelf) if rc == 0 else []
            bad = vlib.compare(reqs, impl, model, eq=sub["eq"])
            ctx.oblige("correspondence (A): every traced operation of the implementation is reproduced by the Lean range-sampler "
                       "model from the logged draws, draw parameters included (%d steps)" % len(reqs), rc == 0 and not bad,
                       "; ".join("#%d %s impl=%s model=%s" % (i, r[:160], a[:100], b[:100]) for i, r, a, b in bad[:3]))
            ctx.coverage["traces_validated_against_impl"] = len(reqs)
            ctx.coverage["A_mismatches"] = len(bad)
            if bad:
                i, r, a, b = bad[0]
                ctx.first_a_mismatch = {"req": r, "impl": a, "model": b}
                # failing-input search: the circuits of the runs in which a traced step disagrees with the model (they are
                # spelled out in the `shot` lines that follow the steps of a run) get their own Born statistics below
                cands = []
                for (i, r, a, b) in bad:
                    if i < 0:
                        continue
                    for j in range(i, min(i + 200, len(reqs))):
                        f = [x.strip() for x in c02.untag(reqs[j]).split(" | ")]
                        if f[0] == "shot" and len(f) >= 5:
                            ops, rep = f[2], ("stabilizer" if f[4].startswith("T") else "vector")
                            toks = ops.replace(";", " ").split()
                            in_f = not any(t in ("peek", "peekall", "resetall") for t in toks) and not (rep == "stabilizer" and "reset" in toks)
                            nc = 1 + max([0] + [int(t) for t in toks if t.isdigit()])
                            if in_f and (rep, f[1], ops) not in [c[:3] for c in cands]:
                                cands.append((rep, f[1], ops, str(min(nc, 64))))
                                # the same circuit followed by a measurement of every qubit in every combination of bases: a wrong sign or
                                # a wrong collapse that the circuit's own measurements do not expose shows up there
                                nq = int(f[1])
                                if 0 < nq <= 3:
                                    import itertools
                                    for combo in itertools.product("ZXY", repeat=nq):
                                        tail = " ; ".join("measure %d %d %s" % (q, q, b) for q, b in enumerate(combo))
                                        cands.append((rep, f[1], ops + " ; " + tail, str(min(max(nc, nq), 64))))
                            break
                    if len(cands) >= 60:
                        break
                ctx.search_candidates = cands
    # (B) statistics of the implementation against the exact Born distribution
    hreqs = himpl = []
    if vlib.cargo_build(ctx, "c01"):
        hdir = os.path.join(ctx.rundir, "hist")
        os.makedirs(hdir, exist_ok=True)
        rc, out = vlib.run_harness(ctx, "c01", outdir=hdir)
        ctx.oblige("histogram harness run completes", rc == 0, out[-300:])
        if rc == 0:
            hreqs, himpl = vlib.read_lines(os.path.join(hdir, "req.txt")), vlib.read_lines(os.path.join(hdir, "impl.txt"))
        cands = getattr(ctx, "search_candidates", [])
        if cands:
            sdir = os.path.join(ctx.rundir, "search")
            os.makedirs(sdir, exist_ok=True)
            args = []
            for rep, nq, ops, nc in cands:
                args += ["one", rep, nq, nc, ops]
            rc2, out2 = vlib.run_harness(ctx, "c01", args, outdir=sdir)
            if rc2 == 0:
                hreqs = hreqs + vlib.read_lines(os.path.join(sdir, "req.txt"))
                himpl = himpl + vlib.read_lines(os.path.join(sdir, "impl.txt"))
                ctx.note("failing-input search: Born statistics on %d circuits whose traces disagree with the model" % len(cands))
    items = []
    wide_fail, wide_n, perm_n = [], 0, 0
    for r, a in zip(hreqs, himpl):
        if r.startswith("wide |") or r.startswith("perm |") or r.startswith("cperm |"):
            # wide registers / user-defined basis-permuting gates under a fulfilled condition: the only register value of
            # non-zero probability is computed classically by the harness
            wide_n += r.startswith("wide |")
            perm_n += r.startswith("perm |") or r.startswith("cperm |")
            if a != "same":
                wide_fail.append({"req": r, "impl": a, "why": "a register value of probability zero occurred %s: " % (
                    "on a wide register" if r.startswith("wide |") else "with Clifford Composite/Loop gates (sub-gates in every operand order) on basis states" if r.startswith("cperm |")
                    else "with a user-defined (matrix-only) increment gate applied under a fulfilled classical condition") + a[:200], "class": "not-born"})
            continue
        tag = None
        if r.startswith("w:"):
            tag, r2 = r[2:].split(" ", 1)
        else:
            r2 = r
        f = [x.strip() for x in r2.split(" | ")]
        items.append({"tag": tag, "kind": f[0], "repr": f[1], "nq": f[2], "fields": f, "ops": f[-1], "ans": a, "req": r})
    circuits = sorted(set((it["nq"], it["ops"]) for it in items))
    born_out = driver_query(ctx, ["born | %s | %s" % c for c in circuits], "born")
    born = {}
    for c, o in zip(circuits, born_out):
        d = parse_pairs(o, int, vlib.hex_to_float)
        if d is not None:
            born[c] = d
    def draw_nodes(it):
        """upper bound on the random nodes of the model's Prog term (the exact enumeration of `modeldist` is exponential in it: a
        stabilizer circuit with five measure_all on 4 qubits ran for 50 minutes under the repository lock with VERIF_SEED=3)"""
        n, nq = 0, int(it["nq"])
        for op in it["ops"].split(" ; "):
            k = op.split(" ", 1)[0]
            n += nq if k in ("measureall", "peekall", "resetall") else 1 if k in ("measure", "peek", "reset") else 0
        return n
    md_items = [it for it in items if it["kind"] == "tuples" and it["repr"] in ("vector", "stabilizer") and draw_nodes(it) <= 12]
    md_out = driver_query(ctx, ["modeldist | %s | %s | %s | %s" % (it["repr"][0], it["nq"], it["fields"][3], it["ops"]) for it in md_items], "modeldist")
    for it, o in zip(md_items, md_out):
        it["modeldist"] = parse_pairs(o, str, vlib.hex_to_float)
    known = {f["id"]: f for f in vlib.load_known(ctx.pid) if f.get("status") == "open"}
    fails, tested, minp = list(wide_fail), 0, 1.0
    ctx.coverage["wide_register_circuits"] = wide_n
    ctx.coverage["user_gate_permutation_circuits"] = perm_n
    ctx.coverage["second_runs_on_the_same_object"] = sum(1 for it in items if it["kind"] in ("again", "tuples-again"))
    ctx.coverage["user_gate_circuits"] = sum(1 for it in items if any(t in it["ops"].split() for t in ("Inc2", "Inc3", "Inc4", "Mix")))
    theorem_float_checks = 0
    for it in items:
        b = born.get((it["nq"], it["ops"]))
        if b is None:
            fails.append({"req": it["req"], "why": "no reference distribution"})
            continue
        if it["kind"] in ("hist", "again"):
            # `again`: the histogram of a SECOND execution on the same Circuit object - the same law
            obs = parse_pairs(it["ans"])
            exp = b
        else:
            obs = parse_pairs(it["ans"], str, int)
            exp = multinomial2(b)
        if obs is None:
            fails.append({"req": it["req"], "impl": it["ans"], "why": "execution of a circuit of fragment F did not return a register", "class": "exec-failed"})
            continue
        if "HISTOGRAM-VIEW-DIFFERS" in it["ans"]:
            fails.append({"req": it["req"], "impl": it["ans"], "why": "Circuit::histogram() differs from the raw register"})
        p, g, df, impossible = stats.g_test(obs, exp)
        tested += 1
        ok_born = (p >= ALARM_P) and not impossible
        # model-level check of the theorem on this circuit (N = 2): modeldist == multinomial(born)
        md = it.get("modeldist")
        if md is not None and it["tag"] is None:
            theorem_float_checks += 1
            dev = max(abs(md.get(k, 0.0) - exp.get(k, 0.0)) for k in set(md) | set(exp))
            if dev > 1e-9:
                fails.append({"req": it["req"], "why": "MODEL distribution (N=2) differs from the Born multinomial by %g on a circuit of fragment F: "
                              "theorem histogram_gf would be false of the model" % dev, "class": "model-not-multinomial"})
        if it["tag"] is None:
            minp = min(minp, p)
            if not ok_born:
                fails.append({"req": it["req"], "impl": it["ans"][:300], "expected": {str(k): v for k, v in exp.items()},
                              "why": "%s is not a Born-rule sample: G=%.1f df=%d p=%.3g impossible=%s" % (
                                  {"again": "histogram of the SECOND execution on the same Circuit object (same shot count)",
                                   "tuples-again": "2-shot registers of repeated executions of ONE Circuit object"}.get(it["kind"], "histogram"),
                                  g, df, p, impossible),
                              "class": "not-born"})
        else:
            # witness of a listed finding: report it only while it still fails AND behaves as predicted
            if ok_born:
                continue
            fd = known.get(it["tag"])
            pred = md if md is not None else None
            if pred is None and fd is not None and it["kind"] == "hist" and fd.get("predicted"):
                pred = {int(k): v for k, v in fd["predicted"].items()}
            agrees = None
            if pred is not None:
                p2, g2, df2, imp2 = stats.g_test(obs, pred)
                agrees = (p2 >= ALARM_P) and not imp2
            if fd is not None and agrees is not False:
                vlib.report_known(ctx, fd)
            else:
                fails.append({"req": it["req"], "impl": it["ans"][:300], "why": "witness %s fails the Born test (p=%.3g) but %s" % (
                    it["tag"], p, "is not a listed open finding" if fd is None else "does not behave as the model/finding predicts"),
                    "class": "not-born"})
    ctx.oblige("property evaluated directly (B): %d histograms / 2-shot joint distributions of the implementation are Born-rule "
               "samples (G-test, alarm below p=1e-9; impossible values never occur), outside listed findings" % tested,
               not fails, "; ".join(f["why"][:200] for f in fails[:3]))
    if fails:
        fl = min(fails, key=lambda f: len(f.get("req", "")))
        vlib.violation(ctx, {"summary": "shot histogram is not distributed as independent Born-rule runs", "input": fl.get("req"),
                             "observed": fl.get("impl"), "expected": fl.get("expected"), "why": fl.get("why"),
                             "seed": ctx.seed, "tier": ctx.tier, "broken": [n for n, _ in vlib.failed_obligations(ctx)]})
    elif getattr(ctx, "first_a_mismatch", None):
        pass
    ctx.coverage.update({
        "evaluations": len(items) + ctx.coverage.get("traces_validated_against_impl", 0),
        "distinct_nontrivial": len(set(it["req"] for it in items if it["tag"] is None)),
        "rule": "circuits of fragment F (no peek/peek_all/reset_all; stabilizer: no reset) generated over all gates (vector) and Clifford "
                "gates (all three representation choices) and structured Clifford circuits (a parity qubit entangled with several superposed qubits, measured, partners measured in random bases), 20k (quick) / 200k (thorough) shots: histogram vs exact Born distribution "
                "from the reference semantics; every third circuit also 5k/50k independent 2-shot runs vs the Born multinomial and vs the "
                "model's exact 2-shot distribution; plus the witnesses of the listed findings. "
                "EXECUTED AGAIN ON THE SAME OBJECT (`again`, `tuples-again`): feedback circuits (conditional gates that read classical bits BEFORE the "
                "measurement that writes them in this run, then H/X and measurements into those bits, further conditionals) and random circuits of F "
                "are executed once (other seed, now and then the other representation, same shot count) and then again on the same Circuit object: "
                "the histogram of the SECOND run vs the Born distribution; one object executed 5k/50k times with 2 shots vs the Born multinomial. "
                "USER-DEFINED gates (harness structs that provide only matrix(): cyclic increments Inc2/Inc3/Inc4 and the crate documentation's Mix(a), "
                "non-symmetric matrices, every apply route the trait default; bare and inside C/Kron/Composite/Loop) applied to superposed/entangled "
                "qubits under a classical condition (always true or a coin) and unconditionally, vector/auto: histogram vs Born (the reference reads the "
                "tokens as composites of library gates with the same matrix, Driver/GateParse.lean); `perm`: increments on basis states under a fulfilled "
                "condition, the only possible register value computed by the harness with integer arithmetic; `wide`: Clifford circuits on 31..130 qubits. "
                "CLIFFORD COMBINATORS: the Clifford streams (here and in the trace harness) draw Kron/Composite/Loop terms whose sub-gates (CX, CY, CZ, "
                "Swap, one-qubit Cliffords, nested) sit on their qubits in EVERY operand order (adjacent descending `CX 1 0`, rotated 3-operand "
                "lists), also as conditional gates, so the stabilizer backend conjugates through them; 40 (150) circuits of superposed qubits + such "
                "combinators on stabilizer/auto/vector vs Born; `cperm`: 300 (1500) basis-state circuits of Composite/Loop gates (bare or under a "
                "fulfilled condition) built from X/Y/CX/CY/CZ/Swap on mostly adjacent operands in both orders, mostly on the stabilizer "
                "representation, the only possible register value computed by the harness with boolean arithmetic. "
                "Non-trivial = every statistical test on a generated circuit; distinct = distinct (circuit, representation, seed).",
        "samples": [{"req": it["req"][:300], "impl": it["ans"][:200]} for it in items[:3]],
        "statistical_tests": tested, "min_p_value_on_F": minp, "model_multinomial_float_checks": theorem_float_checks,
        "B_failures_unlisted": len(fails),
    })
    ctx.assumptions += [
        "the law is proved for fragment F (homogeneous ranges); peeks, reset_all and the stabilizer reset/peek_all are genuine defects (known findings)",
        "rand/rand_distr sample exactly from the requested Binomial/WeightedIndex; f64 rounding of weights (agreement of logged draw parameters to 1e-9)",
        "statistical tests support the validation of the model against the code; they are not the proof",
    ]

"""C05 — library gates denote their documented unitaries."""
import vlib

PROPS_MODULE = "Q1t.Props.C05"

SPEC = {
    "tables": [],
    "props_module": PROPS_MODULE,
    "required": ["q8_lawful", "constants_documented_unitary", "param_prims_documented", "param_prims_unitary",
                 "u2_is_u3_at_half_pi", "u3_decomposition", "controlled_is_direct_sum", "kron_is_kronecker",
                 "unitary_closed", "unitary_of_term", "loop_unitary_of_c04", "ordered_product_unitary",
                 "param_live", "param_live_sensitive", "complex_is_model"],
    "drivers": ["drv_c05"],
    "harness_bin": "c05",
    "eq": vlib.hexfloat_eq(1e-12),
    "spec_check": vlib.spec_via_driver("drv_c05"),
    "nontrivial": lambda r, a: (r.startswith("matrix") or r.startswith("applymat") or r.startswith("basis")) and a.startswith("ok"),
    "rule": "matrix() of every registry gate (44 kinds) at generated parameters (0, +-pi/2, +-pi, >2pi, 1e-9, negative, random), "
            "of random nested combinators (C, Kron, Composite with sub-gate placements, Loop; depth<=3, <=3 qubits quick / <=4 thorough), "
            "and of reference-parameter gates whose cell is changed between matrix() calls (every direct/Rc/pointer pattern, with a priming call); "
            "'placed' stream: a sub-gate on 4 qubits (12 shapes: Kron trees 1+1+1+1 / 2+2 / 1+2+1 / 3+1 / 1+3, C C CX, C Kron, C C Kron, nested Composite "
            "via add_gate, Composite via from_string, Loop over either) on EVERY operand order of a 4-qubit Composite (24, all shapes) and every ordered "
            "selection of 4 out of 5 qubits (120; all shapes where the interior is out of order between min and max such as [0,2,1,3], [1,3,2,4], 3 shapes "
            "elsewhere quick / all thorough), and a sub-gate on 5 qubits (6 shapes) on 24 orders quick / all 120 thorough, the outer term being a bare "
            "Composite, a Composite with a sub-gate before and after, a Loop, or a Loop in a Composite (matrices <= 32x32); "
            "implementation vs Lean model to 1e-12 (A), implementation vs documented unitary (ordered product of the documented unitaries of the sub-gates "
            "embedded on their local qubits) to 1e-9 and unitarity (B). "
            "'layout' stream: Gate::apply_mat / apply_mat_slice of every registry gate, 15 fixed and some random combinators on ONE logical matrix "
            "(2^k or 2*2^k rows, 2 or 3 columns, non-symmetric entries) held row-major, column-major (from_shape_vec(.f()), zeros(.f()) assigned, "
            ".t().to_owned(), reversed_axes()), as owned arrays with column stride 2 / row stride 2 (slice_move of a wider / taller / column-major array), "
            "with rows reversed (negative stride), and as column-major and strided views (the elements outside the view must stay untouched): "
            "every answer = (matrix() (x) 1) * M of the Lean model to 1e-12 (A) and = (documented unitary (x) 1) * M to 1e-9 (B). "
            "'long loop' terms: Loops with 17, 33, 40, 64, 100 iterations (thorough also 16, 31, 32, 65, 128, 255) over cheap 1-3 qubit bodies, alone and where "
            "the state is LARGER than the loop - sub-gate of a 3/4-qubit Composite on every qubit / every ordered pair, factor of a Kron, below C, "
            "inside another Loop - in the matrix stream and in the layout stream (matrices with 2x and 4x the rows the term needs; rm, cm, row-strided view). "
            "'wide register' stream: 32 (thorough 96) Composites on 17 / 18 qubits made of basis-permuting gates (X, CX, Swap, CCX, Kron X CX, nested "
            "Composite) in which a placement with an operand >= 16 comes right after (or before) a placement on low qubits that agrees with it when every "
            "index is truncated to 4 bits ([a,16+x]~[a+1,x], [a,16+x,c]~[a+1,x,c], [a,b,16+y]~[a,b+1,y]), with single-qubit gates in between; observed "
            "through Gate::apply on 3 basis vectors (every 4th case: apply_mat on a 2^n x 1 matrix): the image must be the basis state given by plain "
            "bit manipulation of the index (sub-gates on their local qubits, in order) - request `basis`, (A) and (B). "
            "'history' stream: 24 (thorough 120) Composite OBJECTS on 2 / 3 qubits built step by step (4-6 add_gate calls, mostly multi-qubit sub-gates in "
            "random operand orders, some nested terms) and USED after every add_gate (some also before the first): matrix(), Gate::apply on a state vector "
            "and apply_mat row-major / column-major, at two state sizes (own width and one qubit more); a clone taken mid-way AFTER use and extended "
            "differently, used after each of its own steps; finally the used body extended without a use, then wrapped in a Loop, placed in a wider "
            "Composite on a random operand order, and extended and used once more. Requests are the ordinary matrix / applymat requests for the term "
            "spelling the sub-gates added SO FAR (names inc<case>s<step>, cl.., lb.., ho..), answers come from the long-lived object: (A) vs model, "
            "(B) vs the ordered product of the documented unitaries of the sub-gates added so far. "
            "Non-trivial = a matrix, applymat or basis request that returned; distinct = distinct request.",
}


def run(ctx):
    vlib.standard_flow(ctx, SPEC)
    ctx.assumptions += [
        "IEEE-754 rounding and libm sin/cos are outside the model (agreement checked to 1e-12)",
        "identification of cos(t/2)*1 - i*sin(t/2)*P with exp(-i*t*P/2) is textbook (P^2 = 1) and not re-proved",
    ]

"""C05 — library gates denote their documented unitaries."""
import vlib

PROPS_MODULE = "Q1t.Props.C05"

SPEC = {
    "tables": [],
    "props_module": PROPS_MODULE,
    "required": ["q8_lawful", "constants_documented_unitary", "param_prims_documented", "param_prims_unitary",
                 "u2_is_u3_at_half_pi", "u3_decomposition", "controlled_is_direct_sum", "kron_is_kronecker",
                 "unitary_closed", "unitary_of_term", "loop_unitary_of_c04", "ordered_product_unitary",
                 "param_live", "param_live_sensitive", "complex_is_model"],
    "drivers": ["drv_c05"],
    "harness_bin": "c05",
    "eq": vlib.hexfloat_eq(1e-12),
    "spec_check": vlib.spec_via_driver("drv_c05"),
    "nontrivial": lambda r, a: r.startswith("matrix") and a.startswith("ok"),
    "rule": "matrix() of every registry gate (44 kinds) at generated parameters (0, +-pi/2, +-pi, >2pi, 1e-9, negative, random), "
            "of random nested combinators (C, Kron, Composite with sub-gate placements, Loop; depth<=3, <=3 qubits quick / <=4 thorough), "
            "and of reference-parameter gates whose cell is changed between matrix() calls; implementation vs Lean model to 1e-12 (A), "
            "implementation vs documented unitary to 1e-9 and unitarity (B). Non-trivial = a matrix request that returned; distinct = distinct term.",
}


def run(ctx):
    vlib.standard_flow(ctx, SPEC)
    ctx.assumptions += [
        "IEEE-754 rounding and libm sin/cos are outside the model (agreement checked to 1e-12)",
        "identification of cos(t/2)*1 - i*sin(t/2)*P with exp(-i*t*P/2) is textbook (P^2 = 1) and not re-proved",
    ]

"""Small statistics helpers (standard library only): chi-square survival function, G-test."""
import math


def _gammainc_upper_reg(a, x):
    """Q(a, x) = Γ(a, x)/Γ(a) (Numerical Recipes: series for x < a+1, continued fraction otherwise)."""
    if x <= 0:
        return 1.0
    if x < a + 1.0:
        ap, s, d = a, 1.0 / a, 1.0 / a
        for _ in range(100000):
            ap += 1.0
            d *= x / ap
            s += d
            if abs(d) < abs(s) * 1e-16:
                break
        return max(0.0, 1.0 - s * math.exp(-x + a * math.log(x) - math.lgamma(a)))
    tiny = 1e-300
    b = x + 1.0 - a
    c = 1.0 / tiny
    d = 1.0 / b
    h = d
    for i in range(1, 100000):
        an = -i * (i - a)
        b += 2.0
        d = an * d + b
        if abs(d) < tiny:
            d = tiny
        c = b + an / c
        if abs(c) < tiny:
            c = tiny
        d = 1.0 / d
        de = d * c
        h *= de
        if abs(de - 1.0) < 1e-16:
            break
    return math.exp(-x + a * math.log(x) - math.lgamma(a)) * h


def chi2_sf(x, df):
    if df <= 0:
        return 1.0
    return _gammainc_upper_reg(df / 2.0, x / 2.0)


def g_test(observed, expected_probs, n=None, min_expected=5.0):
    """observed: dict key->count; expected_probs: dict key->prob.  Returns (p_value, G, df, impossible)
    where `impossible` lists observed keys of expected probability (numerically) zero."""
    n = n if n is not None else sum(observed.values())
    impossible = [k for k, c in observed.items() if c > 0 and expected_probs.get(k, 0.0) <= 1e-15]
    cells = []
    pool_o = pool_e = 0.0
    for k, p in expected_probs.items():
        e = p * n
        o = observed.get(k, 0)
        if e < min_expected:
            pool_o += o
            pool_e += e
        else:
            cells.append((o, e))
    if pool_e > 0:
        cells.append((pool_o, pool_e))
    g = 0.0
    for o, e in cells:
        if o > 0 and e > 0:
            g += 2.0 * o * math.log(o / e)
    g = max(g, 0.0)
    df = max(len(cells) - 1, 0)
    p = chi2_sf(g, df) if df > 0 else (1.0 if g < 1e-9 else 0.0)
    return p, g, df, impossible

"""Shared machinery for the per-property checks (see DESIGN.md section 6).

A check for property <ID> is `python3 tools/check.py <ID> [--tier quick|thorough] [--replay path]`.
Per-property logic lives in tools/props/<id>.py and uses the helpers below:

  translate   regenerate lean/Q1t/Gen/*.lean from /repo's working tree
  prove       `lake build` of the property's theorem module + driver, forbidden-token grep, axiom audit
  harness     `cargo build` of the harness binary against /repo's working tree (feature verif), run it
  driver      run the compiled Lean driver on the request file (model mode / spec mode)
  compare     (A) implementation vs model, (B) implementation vs reference semantics
  decide      known findings, VIOLATION lines, replay files, evidence
"""
import fcntl, hashlib, json, os, re, subprocess, sys, time

ROOT = os.path.dirname(os.path.dirname(os.path.abspath(__file__)))
REPO = os.environ.get("VERIF_REPO", "/repo")
LEAN = os.path.join(ROOT, "lean")
HARNESS = os.path.join(ROOT, "harness")
CACHE = os.path.join(ROOT, ".cache")
CARGO_TARGET = os.path.join(CACHE, "cargo-target")
ALLOWED_AXIOMS = {"propext", "Classical.choice", "Quot.sound"}
FORBIDDEN = re.compile(r"\bsorry\b|\badmit\b|^\s*axiom\s|native_decide|bv_decide|implemented_by|\bunsafe\s|maxHeartbeats\s+0\b")

TRUSTED_BASE = [
    "Lean 4.33.0 kernel; axioms limited to propext, Classical.choice, Quot.sound (audited by #print axioms on every theorem of Q1t/Props/<ID>.lean on every run)",
    "statements in lean/Q1t/Props and reference semantics in lean/Q1t/Spec (hand-written, to be reviewed)",
    "tools/translate.py (regenerates lean/Q1t/Gen from /repo source on every run)",
    "correspondence harness (harness/src/bin/*.rs runs the real q1tsim code in-process; lean/Driver/*.lean runs the model; tools/check.py diffs)",
]


class Ctx:
    def __init__(self, pid, tier, seed):
        self.pid, self.tier, self.seed = pid, tier, seed
        self.t0 = time.time()
        self.rundir = os.path.join(CACHE, "run", pid)
        os.makedirs(self.rundir, exist_ok=True)
        os.makedirs(os.path.join(ROOT, "evidence"), exist_ok=True)
        os.makedirs(os.path.join(ROOT, "replays", pid), exist_ok=True)
        self.log = []
        self.obligations = []      # (name, ok, detail)
        self.violations = []       # dicts
        self.known_hits = []
        self.assumptions = []
        self.coverage = {}
        self.waivable = {}         # obligation name -> reason: static ties that the correspondence run may stand in for
        self.requested_tier = tier

    def note(self, msg):
        self.log.append(msg)
        print("[%s %6.1fs] %s" % (self.pid, time.time() - self.t0, msg), flush=True)

    def oblige(self, name, ok, detail=""):
        self.obligations.append((name, bool(ok), detail))
        if not ok:
            self.note("OBLIGATION FAILED: %s %s" % (name, detail[:400]))

    @property
    def thorough(self):
        return self.tier == "thorough"


def env_base(ctx):
    e = dict(os.environ)
    e.update({"CARGO_NET_OFFLINE": "true", "VERIF_SEED": str(ctx.seed), "VERIF_TIER": ctx.tier,
              "CARGO_TARGET_DIR": CARGO_TARGET, "RUST_BACKTRACE": "0"})
    return e


def sh(cmd, cwd=ROOT, timeout=3600, env=None, stdin=None, stdout=None):
    """Run a command; returns (rc, combined output)."""
    try:
        p = subprocess.run(cmd, cwd=cwd, env=env, stdin=stdin,
                           stdout=stdout if stdout is not None else subprocess.PIPE,
                           stderr=subprocess.STDOUT if stdout is None else subprocess.PIPE,
                           timeout=timeout, shell=isinstance(cmd, str))
        out = p.stdout if stdout is None else p.stderr
        return p.returncode, (out or b"").decode("utf-8", "replace")
    except subprocess.TimeoutExpired as e:
        return 124, "TIMEOUT after %ss: %s" % (timeout, cmd)


class Lock:
    """One lock serialises cargo and lake across concurrently started checks."""
    def __init__(self, name="build"):
        os.makedirs(CACHE, exist_ok=True)
        self.path = os.path.join(CACHE, name + ".lock")
    def __enter__(self):
        self.f = open(self.path, "w")
        fcntl.flock(self.f, fcntl.LOCK_EX)
        return self
    def __exit__(self, *a):
        fcntl.flock(self.f, fcntl.LOCK_UN)
        self.f.close()


# ----------------------------------------------------------------------------------------------
# translate

def translate(ctx, tables):
    """Regenerate the named Gen tables from /repo's working tree. Returns dict name -> status."""
    if not tables:
        return {}
    import translate as T
    res = {}
    with Lock("build"):
        for t in tables:
            try:
                changed = T.generate(t, REPO, os.path.join(LEAN, "Q1t", "Gen"))
                res[t] = "regenerated" if changed else "unchanged"
                ctx.oblige("translate:" + t, True)
            except Exception as e:  # unrecognised shape
                # The translator no longer recognises the shape of the source, so the STATIC tie of this table is lost
                # (the Gen file keeps its last content; the theorems are still checked against it).  This happens for
                # harmless rewrites as well as for real changes.  The model's other tie, the correspondence run, then has
                # to carry the whole weight: the run is escalated to the thorough sizes, and `finish` waives this
                # obligation only if every proof, the whole correspondence (A) and the property evaluation (B) pass.
                res[t] = "FAILED: %s" % e
                ctx.oblige("translate:" + t, False, str(e))
                ctx.waivable["translate:" + t] = str(e)
                if ctx.tier != "thorough":
                    ctx.note("static tie of table %s lost (source shape not recognised): escalating this run to the thorough sizes" % t)
                    ctx.tier = "thorough"
                    os.environ["VERIF_TIER"] = "thorough"
    ctx.note("translate: %s" % res)
    return res


# ----------------------------------------------------------------------------------------------
# prove

def lean_files():
    for base in ("Q1t", "Driver"):
        for d, _, fs in os.walk(os.path.join(LEAN, base)):
            for f in fs:
                if f.endswith(".lean"):
                    yield os.path.join(d, f)


def strip_comments(src):
    # block comments (nested not needed for our files), then line comments
    src = re.sub(r"/-.*?-/", lambda m: "\n" * m.group(0).count("\n"), src, flags=re.S)
    return re.sub(r"--.*", "", src)


def import_closure(modules):
    """Files of the project (Q1t.*, Driver.*) transitively imported by the given modules."""
    seen, todo = {}, list(modules)
    while todo:
        m = todo.pop()
        if m in seen or not (m.startswith("Q1t.") or m.startswith("Driver.")):
            continue
        path = os.path.join(LEAN, *m.split(".")) + ".lean"
        if not os.path.exists(path):
            continue
        seen[m] = path
        src = strip_comments(open(path, encoding="utf-8").read())
        todo += re.findall(r"^\s*(?:public\s+)?import\s+(\S+)", src, flags=re.M)
    return sorted(seen.values())


def exe_roots(exes):
    txt = open(os.path.join(LEAN, "lakefile.toml")).read()
    roots = []
    for e in exes:
        m = re.search(r'name\s*=\s*"%s"\s*\n\s*root\s*=\s*"([^"]+)"' % re.escape(e), txt)
        if m:
            roots.append(m.group(1))
    return roots


def grep_forbidden(ctx, files=None):
    hits = []
    for f in (files if files is not None else lean_files()):
        code = strip_comments(open(f, encoding="utf-8").read())
        for i, line in enumerate(code.split("\n"), 1):
            if FORBIDDEN.search(line):
                hits.append("%s:%d: %s" % (os.path.relpath(f, ROOT), i, line.strip()))
    ctx.oblige("no sorry/admit/axiom/native_decide/bv_decide/implemented_by/unsafe/maxHeartbeats 0", not hits, "; ".join(hits))
    return hits


def lake_build(ctx, targets, timeout=3000):
    with Lock("build"):
        rc, out = sh(["lake", "build"] + targets, cwd=LEAN, timeout=timeout)
    return rc, out


def theorem_names(module):
    """Names of all theorems declared in a Props module (file path derived from module name)."""
    path = os.path.join(LEAN, *module.split(".")) + ".lean"
    code = strip_comments(open(path, encoding="utf-8").read())
    ns = re.findall(r"^namespace\s+(\S+)", code, flags=re.M)
    prefix = (ns[0] + ".") if ns else ""
    return [prefix + m for m in re.findall(r"^(?:protected\s+|private\s+)?theorem\s+(\S+)", code, flags=re.M)]


def audit_axioms(ctx, module, required=()):
    """#print axioms for every theorem of the Props module; all must stay within ALLOWED_AXIOMS."""
    names = theorem_names(module)
    missing = [r for r in required if not any(n.endswith("." + r) or n == r for n in names)]
    ctx.oblige("required theorems present in " + module, not missing, "missing: %s" % missing)
    if not names:
        ctx.oblige("audit:" + module, False, "no theorems found")
        return {}
    audit_file = os.path.join(ctx.rundir, "Audit.lean")
    with open(audit_file, "w") as f:
        f.write("import %s\n" % module)
        for n in names:
            f.write("#print axioms %s\n" % n)
    rc, out = sh(["lake", "env", "lean", audit_file], cwd=LEAN, timeout=1800)
    res = {}
    # output: "'name' depends on axioms: [a, b]" or "'name' does not depend on any axioms"
    for m in re.finditer(r"'([^']+)' depends on axioms: \[([^\]]*)\]", out, flags=re.S):
        res[m.group(1)] = set(x.strip() for x in m.group(2).replace("\n", " ").split(",") if x.strip())
    for m in re.finditer(r"'([^']+)' does not depend on any axioms", out):
        res[m.group(1)] = set()
    for n in names:
        if n not in res:
            ctx.oblige("theorem " + n, False, "no #print axioms output (rc=%d): %s" % (rc, out[-300:]))
        else:
            bad = res[n] - ALLOWED_AXIOMS
            ctx.oblige("theorem " + n, not bad, "uses axioms %s" % sorted(bad))
    ctx.coverage.setdefault("axioms", {}).update({k: sorted(v) for k, v in res.items()})
    return res


def prove(ctx, props_module, driver_exes=(), required=(), extra_targets=()):
    """Build the theorem module (+drivers), grep, audit.  Returns True iff all proof obligations hold."""
    t = time.time()
    rc, out = lake_build(ctx, [props_module] + list(extra_targets) + list(driver_exes))
    ok = rc == 0
    detail = ""
    if not ok:
        errs = [l for l in out.split("\n") if "error" in l.lower()]
        detail = "\n".join(errs[:12]) or out[-800:]
    ctx.oblige("lake build %s" % props_module, ok, detail)
    ctx.coverage["lake_build_s"] = round(time.time() - t, 1)
    grep_forbidden(ctx, import_closure([props_module] + exe_roots(driver_exes)))
    if ok:
        audit_axioms(ctx, props_module, required)
        if ctx.thorough:
            rc2, out2 = sh(["lake", "env", "leanchecker", props_module], cwd=LEAN, timeout=3000)
            ctx.oblige("leanchecker " + props_module, rc2 == 0, out2[-400:])
    else:
        # the drivers may still build even if a theorem broke: try them separately so that
        # the failing-input search can run
        if driver_exes:
            rc3, out3 = lake_build(ctx, list(driver_exes))
            ctx.note("drivers built separately: rc=%d" % rc3)
    ctx.note("prove: %s in %.1fs" % ("ok" if ok else "FAILED", time.time() - t))
    return ok


# ----------------------------------------------------------------------------------------------
# harness / driver

def cargo_build(ctx, binname, timeout=3000):
    t = time.time()
    lock_src = os.path.join(REPO, "Cargo.lock")
    with Lock("build"):
        rc, out = sh(["cargo", "build", "--bin", binname], cwd=HARNESS, env=env_base(ctx), timeout=timeout)
    ok = rc == 0
    ctx.oblige("cargo build harness %s against /repo working tree (feature verif)" % binname, ok,
               "\n".join([l for l in out.split("\n") if l.startswith("error")][:8]) or out[-600:])
    ctx.note("cargo build %s: %s in %.1fs" % (binname, "ok" if ok else "FAILED", time.time() - t))
    return ok


def run_harness(ctx, binname, args=(), timeout=3000, outdir=None):
    exe = os.path.join(CARGO_TARGET, "debug", binname)
    outdir = outdir or ctx.rundir
    rc, out = sh([exe, outdir] + list(args), cwd=ROOT, env=env_base(ctx), timeout=timeout)
    if rc != 0:
        ctx.note("harness %s rc=%d: %s" % (binname, rc, out[-500:]))
    return rc, out


def run_driver(ctx, exe, infile, outfile, args=(), timeout=3000):
    path = os.path.join(LEAN, ".lake", "build", "bin", exe)
    with open(infile, "rb") as fi, open(outfile, "wb") as fo:
        rc, err = sh([path] + list(args), cwd=ROOT, stdin=fi, stdout=fo, timeout=timeout)
    if rc != 0:
        ctx.note("driver %s rc=%d: %s" % (exe, rc, err[-500:]))
    return rc


def read_lines(path):
    with open(path, encoding="utf-8", errors="replace") as f:
        return [l.rstrip("\n") for l in f]


def compare(reqs, impl, model, canon=None, eq=None):
    """Line-wise comparison. Returns list of (index, req, impl, model) mismatches."""
    bad = []
    if not (len(reqs) == len(impl) == len(model)):
        bad.append((-1, "line counts", str(len(impl)), str(len(model))))
    for i, (r, a, b) in enumerate(zip(reqs, impl, model)):
        ca, cb = (canon(a), canon(b)) if canon else (a, b)
        same = eq(r, ca, cb) if eq else (ca == cb)
        if not same:
            bad.append((i, r, a, b))
    return bad


# ----------------------------------------------------------------------------------------------
# known findings, violations, evidence

def load_known(pid):
    path = os.path.join(ROOT, "known_findings.json")
    if not os.path.exists(path):
        return []
    data = json.load(open(path))
    fs = list(data.get("findings", []))
    extra = os.environ.get("VERIF_EXTRA_KNOWN")      # builders only: entries proposed but not yet merged by the lead
    if extra and os.path.exists(extra):
        fs += json.load(open(extra))
    return [f for f in fs if pid in f.get("properties", [f.get("property")])]


def report_known(ctx, finding, what=None):
    line = "KNOWN-FINDING: property=%s %s" % (ctx.pid, what or finding.get("what", finding.get("id")))
    if line not in ctx.known_hits:
        ctx.known_hits.append(line)
        print(line, flush=True)


def violation(ctx, replay, found_input=True):
    """Write a replay file and print the VIOLATION line."""
    body = json.dumps(replay, sort_keys=True, indent=1, default=str)
    h = hashlib.sha1(body.encode()).hexdigest()[:12]
    path = os.path.join(ROOT, "replays", ctx.pid, h + ".json")
    with open(path, "w") as f:
        f.write(body)
    ctx.violations.append({"replay": path, "found_input": found_input, "summary": replay.get("summary", "")})
    print("VIOLATION property=%s replay=%s%s" % (ctx.pid, path, "" if found_input else " no-failing-input-found"), flush=True)
    return path


def write_evidence(ctx, checker_cmd, extra_cov=None):
    obs = ctx.obligations
    cov = {
        "obligations": len(obs),
        "discharged": sum(1 for o in obs if o[1]),
        "checker_cmd": checker_cmd,
        "trusted_base": TRUSTED_BASE,
        "obligation_list": [{"name": n, "ok": ok, **({"detail": d[:300]} if (d and not ok) else {})} for n, ok, d in obs],
        "known_findings_reported": ctx.known_hits,
    }
    cov.update(ctx.coverage)
    if extra_cov:
        cov.update(extra_cov)
    ev = {
        "property_id": ctx.pid, "tier": ctx.requested_tier, "seed": ctx.seed, "level": "proof",
        "coverage": cov, "assumptions": ctx.assumptions,
        "wall_s": round(time.time() - ctx.t0, 2), "violations": len(ctx.violations),
    }
    path = os.path.join(ROOT, "evidence", ctx.pid + ".json")
    with open(path, "w") as f:
        json.dump(ev, f, indent=1, sort_keys=True, default=str)
    return path


def failed_obligations(ctx):
    return [(n, d) for n, ok, d in ctx.obligations if not ok]


def finish(ctx, checker_cmd, extra_cov=None):
    """Final decision: any failed obligation without a reported violation becomes a
    no-failing-input-found violation.  Returns the exit code."""
    failed = failed_obligations(ctx)
    waived = []
    if failed and not ctx.violations and all(n in ctx.waivable for n, _ in failed):
        # only static ties (translator shape needles) failed; proofs, correspondence (A) at thorough size and (B) all passed:
        # the model is still tied to the code by the correspondence, the property is still shown to hold.
        waived = failed
        for n, d in waived:
            print("NOTE property=%s static tie lost, carried by the correspondence run at thorough size: %s: %s" % (ctx.pid, n, d[:300]), flush=True)
        ctx.obligations = [(n, ok, d) for n, ok, d in ctx.obligations if n not in ctx.waivable]
        ctx.coverage["waived_static_ties"] = [{"obligation": n, "reason": d[:600]} for n, d in waived]
        ctx.coverage["escalated_from_tier"] = ctx.requested_tier
        failed = []
    if failed and not ctx.violations:
        violation(ctx, {"summary": "proof obligation or correspondence no longer checks; no concrete failing input found",
                        "broken": [{"obligation": n, "detail": d[:2000]} for n, d in failed],
                        "seed": ctx.seed, "tier": ctx.tier}, found_input=False)
    write_evidence(ctx, checker_cmd, extra_cov)
    ctx.note("done: %d obligations, %d failed, %d violations, %d known findings" %
             (len(ctx.obligations), len(failed), len(ctx.violations), len(ctx.known_hits)))
    return 1 if ctx.violations else 0


# ----------------------------------------------------------------------------------------------
# the standard flow used by most properties

def standard_flow(ctx, spec):
    """spec: dict with keys
         tables        list of Gen tables to regenerate
         props_module  e.g. 'Q1t.Props.C17'
         required      theorem names that must exist
         drivers       list of driver exe names (first one is used)
         harness_bin   harness binary name
         canon         optional canonicaliser for answer lines (A)
         eq            optional equality (req, a, b) -> bool for (A)
         spec_check    optional function (ctx, reqs, impl) -> list of dict failures  (B)
         classify      optional function (failure dict) -> known-finding id or None
         nontrivial    function (req, impl_answer) -> bool
         rule          text
         harness_args  extra args
    """
    translate(ctx, spec.get("tables", []))
    proof_ok = prove(ctx, spec["props_module"], spec.get("drivers", []), spec.get("required", []),
                     spec.get("extra_targets", []))
    reqs = impl = model = []
    a_bad = []
    b_fail = []
    if cargo_build(ctx, spec["harness_bin"]):
        rc, out = run_harness(ctx, spec["harness_bin"], spec.get("harness_args", []))
        ctx.oblige("harness run completes", rc == 0, out[-400:])
        if rc == 0:
            reqf, implf, modelf = (os.path.join(ctx.rundir, n) for n in ("req.txt", "impl.txt", "model.txt"))
            reqs, impl = read_lines(reqf), read_lines(implf)
            drv = spec["drivers"][0]
            if os.path.exists(os.path.join(LEAN, ".lake", "build", "bin", drv)):
                rc = run_driver(ctx, drv, reqf, modelf, args=["model"])
                model = read_lines(modelf) if rc == 0 else []
                a_bad = compare(reqs, impl, model, spec.get("canon"), spec.get("eq"))
                ctx.oblige("correspondence (A): implementation = Lean model on %d generated cases" % len(reqs),
                           rc == 0 and not a_bad,
                           "; ".join("#%d %s impl=%s model=%s" % (i, r[:120], a[:120], b[:120]) for i, r, a, b in a_bad[:3]))
            else:
                ctx.oblige("correspondence (A): driver available", False, "driver %s not built" % drv)
            if spec.get("spec_check"):
                b_fail = spec["spec_check"](ctx, reqs, impl)
    # (B) failures: known finding or violation
    known = {f["id"]: f for f in load_known(ctx.pid) if f.get("status") == "open"}
    a_bad_idx = set(i for i, *_ in a_bad)
    new_fail = []
    for fl in b_fail:
        kid = spec["classify"](fl) if spec.get("classify") else None
        if kid in known and fl.get("index") not in a_bad_idx:
            report_known(ctx, known[kid])
        else:
            new_fail.append(fl)
    ctx.oblige("property evaluated directly (B) on the implementation's outputs: no failure outside known findings",
               not new_fail, "; ".join(str(f)[:200] for f in new_fail[:3]))
    if new_fail:
        fl = min(new_fail, key=lambda f: len(f.get("req", "")))
        violation(ctx, {"summary": "property fails on the implementation for this input",
                        "input": fl.get("req"), "observed": fl.get("impl"), "expected": fl.get("expected"),
                        "why": fl.get("why"), "seed": ctx.seed, "tier": ctx.tier,
                        "broken": [n for n, _ in failed_obligations(ctx)],
                        "replay_cmd": "python3 tools/check.py %s --replay <this file>" % ctx.pid})
    nontriv = spec.get("nontrivial", lambda r, a: True)
    distinct = set(r for r, a in zip(reqs, impl) if nontriv(r, a))
    kinds = {}
    for r in reqs:
        k = r.split(" ", 1)[0]
        kinds[k] = kinds.get(k, 0) + 1
    outcomes = {}
    for a in impl:
        k = " ".join(a.split(" ")[:2]) if a.startswith("err") else a.split(" ", 1)[0]
        outcomes[k] = outcomes.get(k, 0) + 1
    ctx.coverage.update({
        "evaluations": len(reqs), "distinct_nontrivial": len(distinct), "rule": spec.get("rule", ""),
        "samples": [{"req": reqs[i], "impl": impl[i], "model": (model[i] if i < len(model) else None)}
                    for i in sorted(set([0, len(reqs) // 3, (2 * len(reqs)) // 3, len(reqs) - 1])) if 0 <= i < len(reqs)],
        "request_kinds": kinds, "impl_outcomes": dict(sorted(outcomes.items(), key=lambda kv: -kv[1])[:40]),
        "A_mismatches": len(a_bad), "B_failures": len(b_fail), "B_failures_unlisted": len(new_fail),
        "exhaustive": bool(spec.get("exhaustive", False)),
    })
    return proof_ok


def spec_via_driver(drv, select=None):
    """(B) through the driver's `spec` mode: each input line is `<req>\\t<impl answer>`, each output
    line is `ok`, `skip`, or `fail <class> <detail>`.  Returns a spec_check function."""
    def check(ctx, reqs, impl):
        inf, outf = os.path.join(ctx.rundir, "spec_in.txt"), os.path.join(ctx.rundir, "spec_out.txt")
        idx = [i for i in range(len(reqs)) if (select is None or select(reqs[i]))]
        with open(inf, "w") as f:
            for i in idx:
                f.write(reqs[i] + "\t" + impl[i] + "\n")
        rc = run_driver(ctx, drv, inf, outf, args=["spec"])
        out = read_lines(outf) if rc == 0 else []
        ctx.oblige("spec evaluation (B) ran on %d cases" % len(idx), rc == 0 and len(out) == len(idx),
                   "rc=%d lines=%d" % (rc, len(out)))
        fails = []
        nskip = 0
        for i, o in zip(idx, out):
            if o == "ok":
                continue
            if o == "skip":
                nskip += 1
                continue
            parts = o.split(" ", 2)
            fails.append({"index": i, "req": reqs[i], "impl": impl[i],
                          "class": parts[1] if len(parts) > 1 else "", "why": o})
        ctx.coverage["B_evaluated"] = len(idx) - nskip
        return fails
    return check


# ----------------------------------------------------------------------------------------------
# numeric comparison of answer lines whose floats travel as 16-digit hex IEEE bit patterns

import struct as _struct
_HEX16 = re.compile(r"^[0-9a-f]{16}$")


def hex_to_float(tok):
    return _struct.unpack(">d", bytes.fromhex(tok))[0]


def hexfloat_eq(tol=1e-12, rel=0.0):
    """Equality for (A): same tokens, except that 16-hex-digit tokens are compared as doubles
    within `tol` (absolute) or `rel` (relative); NaN equals NaN."""
    def eq(req, a, b):
        if a == b:
            return True
        ta, tb = a.split(" "), b.split(" ")
        if len(ta) != len(tb):
            return False
        for x, y in zip(ta, tb):
            if x == y:
                continue
            if _HEX16.match(x) and _HEX16.match(y):
                fx, fy = hex_to_float(x), hex_to_float(y)
                if fx != fx and fy != fy:
                    continue
                if abs(fx - fy) <= tol or abs(fx - fy) <= rel * max(abs(fx), abs(fy)):
                    continue
            return False
        return True
    return eq

#!/usr/bin/env bash
# confirm_benign.sh <property-id> <variant> <src-out-dir>  -> /verif/benign/<id><variant>/ (patch.diff, AUTHOR_README.md, meta.json)
# kept if the patch applies to /repo HEAD and the unedited suite passes with it (scratch worktree /tmp/confirm_wt).
set -u
PID=$1; VAR=$2; SRC=$3
W=/tmp/confirm_wt
export CARGO_NET_OFFLINE=true CARGO_TARGET_DIR=$W/target
if [ ! -d $W ]; then git -C /repo worktree add --detach $W HEAD -q || exit 2; fi
cd $W && git checkout -q -- . && git checkout -q --detach $(git -C /repo rev-parse HEAD)
git apply --check $SRC/patch.diff || { echo "$PID$VAR: patch does not apply"; exit 1; }
git apply $SRC/patch.diff
cargo test --offline --workspace --no-fail-fast > /tmp/confirm_suite.log 2>&1; suite=$?
npass=$(grep -E '^test result' /tmp/confirm_suite.log | head -1)
git checkout -q -- .
echo "$PID$VAR: suite with change rc=$suite [$npass]"
if [ $suite -eq 0 ]; then
  D=/verif/benign/$PID$VAR; mkdir -p $D; cp $SRC/patch.diff $D/patch.diff; cp $SRC/README.md $D/AUTHOR_README.md
  python3 - "$PID" "$VAR" "$npass" <<'P'
import json,sys
pid,var,npass=sys.argv[1:4]
d='/verif/benign/%s%s'%(pid,var)
json.dump({"id":pid+var,"property":pid,"kind":"behaviour-preserving refactoring (the checks must stay quiet)",
 "author":"fresh sub-agent given only the property text and a scratch worktree",
 "confirmed_by_lead":{"existing_suite_with_change":npass,"commands":["git apply patch.diff","cargo test --offline --workspace --no-fail-fast"]}},
 open(d+'/meta.json','w'),indent=1)
P
  echo "kept as $D"
else echo "NOT kept"; grep -E "^test .* FAILED|panicked" /tmp/confirm_suite.log | head -5; fi

#!/usr/bin/env bash
# Re-confirm every kept seeded change against /repo's CURRENT HEAD (repairs can make a seeded defect impossible):
# the patch must apply, the demonstration must pass without it and fail with it, the unedited suite must pass with it.
# Writes seeded/RECONFIRM.txt.  Uses the scratch worktree /tmp/confirm_wt.
set -u
W=/tmp/confirm_wt
export CARGO_NET_OFFLINE=true CARGO_TARGET_DIR=$W/target
if [ ! -d $W ]; then git -C /repo worktree add --detach $W HEAD -q || exit 2; fi
HEAD=$(git -C /repo rev-parse --short HEAD)
out=/verif/seeded/RECONFIRM.txt
echo "# re-confirmation of the seeded changes on /repo $HEAD" > $out
for d in /verif/seeded/C*/; do
  id=$(basename $d)
  cd $W && git checkout -q -- . && git clean -fdq tests 2>/dev/null; git checkout -q --detach $(git -C /repo rev-parse HEAD)
  if ! git apply --check $d/patch.diff 2>/dev/null; then echo "$id patch-does-not-apply" >> $out; continue; fi
  mkdir -p tests; cp $d/demo.rs tests/demo_seeded.rs
  cargo test --offline --test demo_seeded > /tmp/reconf_o.log 2>&1; o=$?
  git apply $d/patch.diff
  cargo test --offline --test demo_seeded > /tmp/reconf_m.log 2>&1; m=$?
  rm -f tests/demo_seeded.rs; rmdir tests 2>/dev/null
  cargo test --offline --workspace --no-fail-fast > /tmp/reconf_s.log 2>&1; s=$?
  git checkout -q -- .
  st="ok"; [ $o -ne 0 ] && st="demo-fails-on-original"; [ $m -eq 0 ] && st="demo-passes-with-change"; [ $s -ne 0 ] && st="suite-fails-with-change"
  echo "$id $st (demo on original rc=$o, with change rc=$m, suite with change rc=$s)" >> $out
done
echo done >> $out

#!/usr/bin/env python3
"""Regenerates MANIFEST.json from the CLAIMS table below (edit the table, run this)."""
import json, os
ROOT = os.path.dirname(os.path.dirname(os.path.abspath(__file__)))
props = [json.loads(l) for l in open(os.path.join(ROOT, "properties.jsonl"))]

TECH = "Lean 4 theorems (kernel-checked, axiom-audited) about an executable model; model tied to /repo by translator-regenerated tables and a Rust-vs-Lean correspondence run"

# id -> (level text, level note, design ref, technique)
CLAIMS = {
 "C17": ("All statements of the property are theorems for every size n, every index vector and every payload: new_ok_iff_bijection, new_error_cases, into_spec, inverse_spec, inverse_inverse, apply_inverse_undoes, inPlace_eq_into (cycle-following terminates and equals the gather), matrix_mulVec, transform_spec, transform_eq_P_A_Pt. The model is tied to src/permutation.rs by running both on all n^n index vectors (n<=5 quick, n<=6 thorough) and random larger ones; the property itself is also evaluated on the implementation's outputs.",
         "Trusted: Lean kernel + propext/Quot.sound/Classical.choice; hand-written model lean/Q1t/Model/Perm.lean validated by differential run (not by translation); ndarray indexing/select/dot assumed to be array access; the fuel of the in-place loop is proved sufficient.",
         "DESIGN.md §5 C17", TECH),
 "C01": ("Proved (Lean, any commutative ring): the multinomial law of a range-based sampler — the N-shot generating function is the N-th power of the single-shot one (histogram_gf_abstract); the concrete law for the simulator model on the fragment F (no peek/peek_all/reset_all, stabilizer: no reset) and kernel-checked negative witnesses for the listed defects are being added to Q1t/Props/C01.lean and are listed in the evidence once present. The range-sampler model is tied to the code by re-executing every traced operation of the real simulator from its logged random draws (draw distribution parameters compared), and the implementation's histograms and 2-shot joint distributions are tested against the exact Born distribution of an independent reference semantics.",
         "PARTIAL: the law is not true of the pinned code outside F (known findings D2-D5); exact Binomial/WeightedIndex sampling by rand/rand_distr and f64 rounding are assumed; statistical tests support model validation, they are not the proof.",
         "DESIGN.md §5 C01", TECH),
 "C07": ("Theorems for all control lists, targets, register words and range layouts: control_word_bit (bit j of the gathered word is bit control[j] of the register; first listed = least significant), control_word_panics_iff, conditional_histogram_order, ranges_partition + rle_is_maximal_runs (collect_conditional_ranges covers the shots in order with maximal constant-mask pieces inside one old range), conditional_per_shot (a shot's state gets the gate iff its control word equals the target; all other shots and the register untouched), bridges sim_ranges_agree / sim_control_word_agrees to the simulator model; negative witness zero_shots_panics. Correspondence: collect_conditional_ranges exhaustively for <=7 shots and random larger, circuit-level conditional gates on both backends with the execution trace.",
         "What a gate does to a general state is C04/C06; circuit-level untouchedness of non-matching shots is checked on traces, the theorem is at the ranges level; shifts >= 64 panic only in overflow-checked builds.",
         "DESIGN.md §5 C07", TECH),
 "C08": ("Theorems over BitVec 64 for all words, positions and lists: write_frame/write_value/later_write_wins, reverse_bits_bit, shuffle_bits_bit (+ exact panic conditions), measure_all_bits (distinct targets; exact OR behaviour for repeated ones, with negative witnesses D14), write_confinement for every operation on both backends, gates_and_resets_frame, unwritten_zero, register_within_width, histogram_counts / histogram_vec_spec / string_key_bits / views_agree. Correspondence: private helpers through the verif hook and real circuits on basis states with generated bit assignments on both representations, all four register views compared.",
         "PARTIAL for repeated measure_all/peek_all targets (known findings D14) and 0 shots (D9); basis-state gate action shared between model and spec (general gate action is C04).",
         "DESIGN.md §5 C08", TECH),
 "C09": ("Theorems about the Circuit object as a history machine, for every backend, circuit, store and call: execute_fresh (independent of prior quantum/classical state), execute_unfold (zero register, supplied state), reexecute_continues (execute;reexecute = one run of ops++ops from the fresh state), reexecute_from_stored, not_executed_errors, query_not_executed, param_read_at_run, resolve_depends_on_refs, direct_constant. Correspondence: generated call histories on a real Circuit with Rc<RefCell> parameters assigned between runs; every traced operation of every run re-executed by the model from the state the previous call ended in.",
         "After an error inside a run the partially updated object is not modelled; FFI pointer parameters are exercised in C19.",
         "DESIGN.md §5 C09", TECH),
 "C10": ("Theorems: draws_prefix and same_prefix_same_result (the result of a run depends only on the consumed prefix of the draw stream), run_append; structural determinism of the model (randomness enters only at binomial/categorical nodes). The runtime part is observed: identically seeded runs of generated circuits are bit-identical and draw the same number of generator words twice in one process with the ambient generator consumed in between, on 16 threads, and in a separate process.",
         "PARTIAL: absence of ambient nondeterminism in the Rust code (thread_rng, randomly seeded hashers, process state) is observed by the harness, not proved; hash-map iteration order is an oracle in the model.",
         "DESIGN.md §5 C10", TECH),
 "C05": ("Theorems: constants_documented_unitary (every constant gate incl. the named controlled constants equals its documented matrix and is unitary, kernel-checked over the exact field Q(zeta8) = the whole quantifier for parameterless gates), param_prims_documented and param_prims_unitary (RX RY RZ U1 U2 U3 equal the documented closed forms and are unitary for ALL parameter values, in any commutative *-ring with an abstract trigonometric context), u2_is_u3_at_half_pi, u3_decomposition, controlled_is_direct_sum, kron_is_kronecker, unitary_closed / unitary_of_term (unitarity preserved by C, Kron, products, powers), param_live (a reference parameter contributes the store's current value). Composite = ordered product of embedded sub-gates and loop = power follow from the C04 route theorems. Correspondence: matrix() of all 44 registry gates and of random nested combinators at generated parameters vs the model (1e-12), vs the documented unitary (1e-9), unitarity, and reference-parameter liveness.",
         "IEEE rounding/libm outside the model; exp(-i theta P/2) = cos(theta/2) - i sin(theta/2) P is textbook and not re-proved; composite/loop statements take the C04 corollary.",
         "DESIGN.md §5 C05", TECH),
 "C14": ("Theorems for all texts: parse_total / parse_consumes / parse_never_panics; parse_error_cannot_start, parse_error_unclosed, parse_error_dangling, parse_error_signed_exponent (the specific ParseError); parse_cst_partial / parse_render_partial — the fully general scannerless round trip: for every AST of the documented grammar, every layout with arbitrary (Unicode) white space and redundant parentheses and every remainder that cannot continue the expression, parse returns exactly that tree and that remainder, hence the conventional value under every interpretation of the float operations; literal_bits_agree. The regex patterns are regenerated from the source on every run (patterns_as_modelled). Correspondence: grammar-generated and malformed strings, AST/remainder exact, value bits exact (2 ulp for libm functions).",
         "PARTIAL: integer literals >= 2^64 are rejected by the code (known finding, pinned by a test); the regex crate, Rust's f64 parsing and libm are modelled and checked by runs, not verified; a signed exponent without parentheses (2^-1) is treated as outside the documented grammar.",
         "DESIGN.md §5 C14", TECH),
 "C19": ("Theorems for all call histories, arguments and any Rust-API behaviour: result_free_exact (result_free releases exactly the blocks the result owns), dealloc_wrong_layout_faults, result_free_twice_faults, conformant_free_never_faults, heap_balanced and heap_accounted (by invariant induction over histories: with every result freed once and every circuit freed once the heap returns to its initial multiset), gate_table_documented / cond_table_documented (the dispatch tables re-extracted from ffi.rs on every run equal the documented tables, by decide), sigs_agree / layouts_agree / result_codes_agree (Rust extern signatures and #[repr(C)] layouts vs the Python cdef prototypes), ffi_mirrors / ffi_error_iff (RESULT_ERROR iff the Rust call errs or no such call exists; same payload otherwise), ffi_param_live. Correspondence: the real extern \"C\" functions under a logging global allocator on generated histories (4k quick / 40k thorough), allocations per call compared with the model, answers compared with a twin Rust Circuit, aborts confirmed in isolated child processes.",
         "PARTIAL: what the allocator does and that q1tsim proper neither leaks nor frees foreign blocks is observed, not modelled; panics across the C ABI abort the process (nine known-finding classes); abort predictors are conservative.",
         "DESIGN.md §5 C19", TECH),

 "C13": ("Theorems for all circuits of any register size and length: grid_rectangular / shape_invariant (if the export does not fail, the grid has one row per quantum and classical wire and all rows have equal length; an invariant of the emitter state machine under any sequence of emitters), connectors_in_grid_on_partner_partial / connector_invariant (every vertical connector of every cell ends inside the grid on its partner symbol, for all circuits whose operations satisfy the decidable predicate opOk, which excludes exactly the listed defect classes), undrawable_is_error / undrawable_error_value (peeks are refused with the specific error and the first undrawable operation decides), emitter_templates_as_modelled (the cell templates re-extracted from src/export/latex.rs on every run are the ones the model prints); kernel-checked negative witnesses for the defect classes (control between targets panics, reset_all on 0 qubits panics, conditional composite overwrites its own column, nested loop panics, barrier column reused, controlled Kron unconnected). Correspondence: Circuit::latex() and the public LatexExportState methods vs the model on every library gate at every placement (<=4 qubits) and 4k/40k random circuits over all op kinds, compared cell by cell; the implementation's text is read back by an independent qcircuit reader and WellDrawn (once-per-op, wire order, connector ends, clear spans) evaluated on it.",
         "PARTIAL: the connector theorem holds under opOk (ten known findings are the excluded classes); 'every operation exactly once', wire order and clear connector spans are evaluated on the implementation's output of every generated case (B), not proved in general; that the printed text reads back as the model's grid is checked at run time.",
         "DESIGN.md §5 C13", TECH),
 "C16": ("Theorems for all parameter values and all nestings, in any commutative *-ring with an abstract trigonometric context (instantiated at the complex numbers by complex_is_model): square_exact_prim (every primitive with a square except U2: matrix(square g) = matrix(g)^2 exactly), u2_square_phase (U2: equal up to the stated unit scalar only), square_term (exactness is preserved by C, Kron and Loop; phase-equality by Kron and Loop but by C only when exact), square_spec_partial (for every term with no U2 below a C: the square denotes the gate applied twice up to one global phase, and exactly below every C), cu2_square_wrong_of_phase / cu2_square_wrong (the full statement is false for CU2: kernel-checked witness), square_reference_refused (any reference-valued parameter is refused with ReferenceArithmetic, never frozen), square_loop_keeps_body, square_unimplemented (U3, composites: OpNotImplemented). Correspondence: every Square implementor and 41 nestings at generated parameters, with reference cells overwritten between square() and matrix().",
         "PARTIAL: U2 below a controlled wrapper is a genuine defect (known finding C16-cu2-square); IEEE rounding/libm outside the model; usize overflow of 2*nr_iterations not modelled.",
         "DESIGN.md §5 C16", TECH),
}
NOT_YET = "check under construction in this round (not yet claimed)"

checks = []
for p in props:
    pid = p["id"]
    if pid in CLAIMS:
        text, note, ref, tech = CLAIMS[pid]
        checks.append({
            "property_id": pid,
            "quick_cmd": "python3 tools/check.py %s --tier quick" % pid,
            "thorough_cmd": "python3 tools/check.py %s --tier thorough" % pid,
            "evidence_file": "evidence/%s.json" % pid,
            "replay_cmd_template": "python3 tools/check.py %s --replay {path}" % pid,
            "engine": "lean-proof+correspondence",
            "level_claimed": {"category": "proof", "text": text, "design_ref": ref},
            "level_note": note,
            "technique": tech,
        })
hooks_commits = ["3c322e9", "ab5bd86"]
m = {
 "version": 1,
 "setup_cmd": "bash tools/setup.sh",
 "hooks": {"guard": "verif",
           "enable": "cargo feature: the harness crate depends on q1tsim = { path = \"/repo\", features = [\"verif\"] }",
           "baseline_off_cmd": "cd /repo && cargo test --workspace --no-fail-fast --offline",
           "source_commits": hooks_commits, "add_only": True},
 "engines": [{"name": "lean-proof+correspondence", "path": "tools/check.py",
              "serves_properties": sorted(CLAIMS),
              "kind_free_text": "Lean 4 theorems about an executable model (lean/Q1t), model tied to /repo by a translator (tools/translate.py, tools/gen) and a Rust-vs-Lean correspondence run (harness/, lean/Driver)"}],
 "checks": checks,
 "notes": "See DESIGN.md. Every check: python3 tools/check.py <ID> --tier quick|thorough. known_findings.json lists genuine defects (open) and repaired ones (fixed).",
 "not_applicable": [{"property_id": p["id"], "reason": NOT_YET} for p in props if p["id"] not in CLAIMS],
}
json.dump(m, open(os.path.join(ROOT, "MANIFEST.json"), "w"), indent=1)
print("claimed:", sorted(CLAIMS))

#!/usr/bin/env python3
"""Regenerates MANIFEST.json from the CLAIMS table below (edit the table, run this)."""
import json, os
ROOT = os.path.dirname(os.path.dirname(os.path.abspath(__file__)))
props = [json.loads(l) for l in open(os.path.join(ROOT, "properties.jsonl"))]

TECH = "Lean 4 theorems (kernel-checked, axiom-audited) about an executable model; model tied to /repo by translator-regenerated tables and a Rust-vs-Lean correspondence run"

# id -> (level text, level note, design ref, technique)
CLAIMS = {
 "C17": ("All statements of the property are theorems for every size n, every index vector and every payload: new_ok_iff_bijection, new_error_cases, into_spec, inverse_spec, inverse_inverse, apply_inverse_undoes, inPlace_eq_into (cycle-following terminates and equals the gather), matrix_mulVec, transform_spec, transform_eq_P_A_Pt. The model is tied to src/permutation.rs by running both on all n^n index vectors (n<=5 quick, n<=6 thorough) and random larger ones; the property itself is also evaluated on the implementation's outputs.",
         "Trusted: Lean kernel + propext/Quot.sound/Classical.choice; hand-written model lean/Q1t/Model/Perm.lean validated by differential run (not by translation); ndarray indexing/select/dot assumed to be array access; the fuel of the in-place loop is proved sufficient.",
         "DESIGN.md §5 C17", TECH),
 "C01": ("Proved (Lean, any commutative ring): the multinomial law of a range-based sampler — the N-shot generating function is the N-th power of the single-shot one (histogram_gf_abstract); the concrete law for the simulator model on the fragment F (no peek/peek_all/reset_all, stabilizer: no reset) and kernel-checked negative witnesses for the listed defects are being added to Q1t/Props/C01.lean and are listed in the evidence once present. The range-sampler model is tied to the code by re-executing every traced operation of the real simulator from its logged random draws (draw distribution parameters compared), and the implementation's histograms and 2-shot joint distributions are tested against the exact Born distribution of an independent reference semantics.",
         "PARTIAL: the law is not true of the pinned code outside F (known findings D2-D5); exact Binomial/WeightedIndex sampling by rand/rand_distr and f64 rounding are assumed; statistical tests support model validation, they are not the proof.",
         "DESIGN.md §5 C01", TECH),
}
NOT_YET = "check under construction in this round (not yet claimed)"

checks = []
for p in props:
    pid = p["id"]
    if pid in CLAIMS:
        text, note, ref, tech = CLAIMS[pid]
        checks.append({
            "property_id": pid,
            "quick_cmd": "python3 tools/check.py %s --tier quick" % pid,
            "thorough_cmd": "python3 tools/check.py %s --tier thorough" % pid,
            "evidence_file": "evidence/%s.json" % pid,
            "replay_cmd_template": "python3 tools/check.py %s --replay {path}" % pid,
            "engine": "lean-proof+correspondence",
            "level_claimed": {"category": "proof", "text": text, "design_ref": ref},
            "level_note": note,
            "technique": tech,
        })
hooks_commits = ["3c322e9", "ab5bd86"]
m = {
 "version": 1,
 "setup_cmd": "bash tools/setup.sh",
 "hooks": {"guard": "verif",
           "enable": "cargo feature: the harness crate depends on q1tsim = { path = \"/repo\", features = [\"verif\"] }",
           "baseline_off_cmd": "cd /repo && cargo test --workspace --no-fail-fast --offline",
           "source_commits": hooks_commits, "add_only": True},
 "engines": [{"name": "lean-proof+correspondence", "path": "tools/check.py",
              "serves_properties": sorted(CLAIMS),
              "kind_free_text": "Lean 4 theorems about an executable model (lean/Q1t), model tied to /repo by a translator (tools/translate.py, tools/gen) and a Rust-vs-Lean correspondence run (harness/, lean/Driver)"}],
 "checks": checks,
 "notes": "See DESIGN.md. Every check: python3 tools/check.py <ID> --tier quick|thorough. known_findings.json lists genuine defects (open) and repaired ones (fixed).",
 "not_applicable": [{"property_id": p["id"], "reason": NOT_YET} for p in props if p["id"] not in CLAIMS],
}
json.dump(m, open(os.path.join(ROOT, "MANIFEST.json"), "w"), indent=1)
print("claimed:", sorted(CLAIMS))
